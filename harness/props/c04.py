"""C04: (constraint list, context, variables to eliminate) with 1-4 terms over <= 6 variables, built so that every
tactic gets reachable inputs: goal-context and chained one-variable substitutions (tactic 4), contexts over eliminated
variables only (tactic 2), diagonally dominant contexts (Kaykobad, tactics 1/3), LP-active contexts incl. degenerate
optima (tactic 5), contexts that bound the variable in the wrong direction, duplicated rows, context rows equal to the
term; tactics_order in every singleton [1]..[5], the default order and random permutations/subsets; both directions;
simplify on/off.  Two kinds of cases: a single tactic call, and a whole elim_vars_by_refining/relaxing call.
Non-trivial = the term list mentions a variable to eliminate."""
from __future__ import annotations

import json
import random
from fractions import Fraction
from typing import List, Optional

from .. import common as C
from .. import gen as G
from .. import judge as J
from ..framework import Check

ELIM = ["x", "y", "z"]
KEEP = ["a", "b", "c"]


def gen_structured(rng: random.Random):
    """returns (terms, ctx, xs)"""
    k = lambda: float(rng.choice([1, 2, 3]))  # noqa: E731
    s = lambda: float(rng.choice([-1, 1]))    # noqa: E731
    if rng.random() < 0.05:
        # partial success: the only context row that bounds x in the needed direction mentions ANOTHER variable to eliminate (y) next
        # to kept ones, and y has a bound of its own.  A tactic that substitutes the row (5) leaves a term that still mentions y:
        # a relaxation must then drop it, a refinement must go on or fail — the result may never mention x or y.
        sg = s()
        t = {"c": {"a": sg * k(), "x": -sg * k()}, "k": float(rng.randint(-2, 4))}
        link = {"c": {"x": sg * k(), "y": -sg * k(), "b": -sg * k()}, "k": float(rng.randint(0, 3))}
        ctx = [link, {"c": {"y": sg}, "k": float(rng.randint(1, 6))}, {"c": {"b": sg}, "k": float(rng.randint(1, 4))}]
        if rng.random() < 0.4:
            del link["c"]["b"]
            ctx = ctx[:2]
        return [t], ctx, ["x", "y"]
    if rng.random() < 0.03:
        # three coupled variables: the column of x receives off-diagonal contributions from the rows of y and of z, each below the
        # diagonal entry's share and together above it (3/4 + 3/4 > 1): Kaykobad's condition fails only through the SUM
        sg = s()
        dy, dz = float(rng.choice([4, 5])), float(rng.choice([4, 5]))
        t = {"c": {"x": sg, "y": sg, "z": sg, "a": sg * k()}, "k": float(rng.randint(-2, 3))}
        ctx = [{"c": {"x": 2.0 * sg, "b": -sg}, "k": 0.0}, {"c": {"x": 3.0 * sg, "y": dy * sg, "c": -sg}, "k": 0.0},
               {"c": {"x": 3.0 * sg, "z": dz * sg, "d": -sg}, "k": float(rng.randint(0, 2))}]
        if rng.random() < 0.5:
            rng.shuffle(ctx)
        return [t], ctx, ["x", "y", "z"]
    m = rng.random()
    if m < 0.05:   # mutual helpers: two terms bound the same eliminated variable in the same direction; the context bounds it through
        # a chain or not at all.  Each may be discharged only with the already transformed sibling as helper.
        sg = s()
        t1 = {"c": {"a": sg * k(), "y": sg * k()}, "k": float(rng.randint(2, 8))}
        t2 = {"c": {"y": sg * k()}, "k": float(rng.randint(1, 6))}
        r = rng.random()
        ctx = []
        if r < 0.35:
            ctx = [{"c": {"y": sg, "z": -sg}, "k": float(rng.randint(0, 2))}, {"c": {"z": sg, "b": -sg}, "k": float(rng.randint(0, 2))}]
        elif r < 0.5:
            ctx = [{"c": {"y": sg * k(), "b": -sg * k()}, "k": float(rng.randint(0, 3))}]
        terms = [t1, t2] if rng.random() < 0.7 else [t2, t1]
        return terms, ctx + G.rtl(rng, KEEP, rng.randint(0, 1)), ["y", "z"] if r < 0.35 else ["y"]
    if m < 0.18:   # tactic 4, goal context
        p = s() * k()
        t = {"c": {"x": p, "a": s() * k()}, "k": float(rng.randint(-3, 6))}
        good = {"c": {"x": (1 if p > 0 else -1) * k(), "b": s() * k()}, "k": float(rng.randint(-3, 6))}
        wrong = {"c": {"x": (-1 if p > 0 else 1) * k(), "b": s() * k()}, "k": float(rng.randint(-3, 6))}
        ctx = [good] if rng.random() < 0.6 else ([wrong] if rng.random() < 0.5 else [wrong, good])
        return [t], ctx + G.rtl(rng, KEEP, rng.randint(0, 1)), ["x"]
    if m < 0.26:   # tactic 4, longer chain x -> y -> z, possibly with a dead end (no row bounds the last variable alone)
        p = s() * k()
        t = {"c": {"x": p, "a": s() * k()}, "k": float(rng.randint(-3, 6))}
        sx = 1 if p > 0 else -1
        q = s() * k()
        r1 = {"c": {"x": sx * k(), "y": q}, "k": float(rng.randint(-3, 6))}
        sy = 1 if (-q / sx) > 0 else -1          # sign the y-coefficient of the next row needs (upper-bound branch)
        if sx < 0:
            sy = -sy                             # lower-bound branch: the isolated expression is negated first
        q2 = s() * k()
        r2 = {"c": {"y": sy * k(), "z": q2}, "k": float(rng.randint(-3, 6))}
        ctx = [r1, r2]
        if rng.random() < 0.5:
            sz = 1 if (-q2 / sy) > 0 else -1
            ctx.append({"c": {"z": (sz if rng.random() < 0.7 else -sz) * k(), "c": s() * k()}, "k": float(rng.randint(-3, 6))})
        if rng.random() < 0.3:
            ctx[0]["c"]["b"] = s() * k()
        rng.shuffle(ctx)
        return [t], ctx, ["x", "y", "z"]
    if m < 0.36:   # tactic 4, chain through y
        p = s() * k()
        t = {"c": {"x": p, "a": s() * k()}, "k": float(rng.randint(-3, 6))}
        sx = 1 if p > 0 else -1
        q = s() * k()
        u = {"c": {"x": sx * k(), "y": q, "b": s() * k()}, "k": float(rng.randint(-3, 6))}
        # isolating x from u gives coefficient -q/(sx*k) for y; the recursion needs a row whose y-coefficient has that sign
        sy = 1 if (-q / sx) > 0 else -1
        gy = {"c": {"y": (sy if rng.random() < 0.7 else -sy) * k(), "c": s() * k()}, "k": float(rng.randint(-3, 6))}
        ctx = [u, gy]
        rng.shuffle(ctx)
        return [t], ctx, ["x", "y"]
    if m < 0.5:    # tactic 2: context over eliminated variables only
        xs = ["x", "y"][: rng.randint(1, 2)]
        t = {"c": dict({v: s() * k() for v in xs}, a=s() * k()), "k": float(rng.randint(-3, 6))}
        ctx = G.box_tl(xs, -rng.randint(0, 3), rng.randint(0, 3))
        if rng.random() < 0.3:
            ctx = ctx[: rng.randint(1, len(ctx))]   # maybe unbounded
        if rng.random() < 0.3 and len(xs) == 2:
            ctx.append({"c": {"x": 1.0, "y": 1.0}, "k": float(rng.randint(0, 4))})
        return [t], ctx + G.rtl(rng, KEEP, rng.randint(0, 1)), xs
    if m < 0.55:   # tactic 3: one context row coupling the eliminated variables in the term's proportion (or a wrong one)
        c1, c2 = rng.choice([(1.0, 2.0), (2.0, 1.0), (1.0, 3.0), (3.0, 2.0), (1.0, 0.5), (2.0, 2.0)])
        sg = s()
        t = {"c": {"a": s() * k(), "x": sg * c1, "y": sg * c2}, "k": float(rng.randint(-3, 6))}
        f = rng.choice([1.0, 0.5, 2.0]) * rng.choice([1.0, 1.0, -1.0])
        mode = rng.random()
        if mode < 0.6:
            row = {"x": f * c1, "y": f * c2}            # proportional: the change of variable applies
        elif mode < 0.8:
            row = {"x": f * c2, "y": f * c1}            # the inverse proportion: must decline
        else:
            row = {"x": f * c1, "y": -f * c2}
        row[rng.choice(["b", "c"])] = s() * k()
        ctx = [{"c": row, "k": float(rng.randint(-3, 6))}]
        if rng.random() < 0.3:
            ctx += G.rtl(rng, KEEP, 1)
        return [t], ctx, ["x", "y"]
    if m < 0.6:    # Kaykobad edge: three eliminated variables, the column of the middle one is loaded by the first AND the third row
        sg = s()
        o1, o3 = rng.choice([(0.6, 0.6), (0.5, 0.5), (0.75, 0.5), (0.5, 0.25), (0.4, 0.7), (0.25, 0.25)])
        t = {"c": {"x": sg, "y": sg, "z": sg, "a": s() * k()}, "k": float(rng.randint(-3, 6))}
        d = lambda: float(rng.choice([1, 1, 2]))  # noqa: E731
        d1, d2, d3 = d(), d(), d()
        rows = [{"c": {"x": sg * d1, "y": sg * o1 * d1, "b": s() * k()}, "k": float(rng.randint(-3, 6))},
                {"c": {"y": sg * d2, "c": s() * k()}, "k": float(rng.randint(-3, 6))},
                {"c": {"z": sg * d3, "y": sg * o3 * d3, "b": s() * k()}, "k": float(rng.randint(-3, 6))}]
        if rng.random() < 0.5:
            rows = [G.scale_term(r, -1.0) for r in rows]   # the relaxing direction
        return [t], rows, ["x", "y", "z"]
    if m < 0.7:    # Kaykobad-style
        n = rng.choice([1, 2, 2, 3, 3, 3])
        xs = ELIM[:n]
        refine = None
        q = {v: k() * s() for v in xs}
        t = {"c": dict(q, a=s() * k()), "k": float(rng.randint(-3, 6))}
        ctx = []
        for v in xs:
            row = {v: float(rng.choice([1, 1, 2, 3, 4])) * (1 if q[v] > 0 else -1)}
            for w in xs:
                if w != v and rng.random() < 0.6:
                    # off-diagonals up to the edge of (generalised) diagonal dominance: the column sums decide
                    row[w] = float(rng.choice([0.5, 1, 0.25, 0.6, 0.75])) * (1 if q[w] > 0 else -1)
            row[rng.choice(KEEP)] = s() * k()
            ctx.append({"c": row, "k": float(rng.randint(-3, 6))})
        if rng.random() < 0.5:
            ctx = [G.scale_term(r, -1.0) if rng.random() < 0.5 else r for r in ctx]
            for r in ctx:
                r["k"] = float(rng.randint(-3, 6))
        if rng.random() < 0.35 and n >= 2:
            # an off-diagonal entry pointing the wrong way: the Kaykobad sign test must refuse the row
            r = rng.choice(ctx)
            offs = [w for w in r["c"] if w in xs]
            if len(offs) >= 2:
                w = rng.choice(offs)
                r["c"][w] = -r["c"][w]
        if rng.random() < 0.3 and n >= 2:
            # mixed signs in the term itself
            w = rng.choice(xs)
            t["c"][w] = -t["c"][w]
        rng.shuffle(ctx)
        return [t], ctx, xs
    if m < 0.85:   # LP-active context (tactic 5)
        n = rng.randint(1, 2)
        xs = ELIM[:n]
        pt = {v: float(rng.randint(-2, 2)) for v in xs + KEEP}
        t = {"c": dict({v: s() * k() for v in xs}, a=s() * k()), "k": float(rng.randint(-3, 6))}
        ctx = G.feasible_tl(rng, xs + KEEP[:2], rng.randint(2, 5), point=pt, slack=(0, 2))
        if rng.random() < 0.4:
            ctx += G.box_tl(xs, -3, 3)
        return [t], ctx, xs
    vs = ELIM[: rng.randint(1, 3)] + KEEP[: rng.randint(1, 3)]
    xs = [v for v in vs if v in ELIM]
    pt = {v: float(rng.randint(-2, 2)) for v in vs}
    terms = G.feasible_tl(rng, vs, rng.randint(1, 3), point=pt)
    ctx = G.feasible_tl(rng, vs, rng.randint(0, 4), point=pt)
    if terms and rng.random() < 0.2:
        ctx.append(dict(c=dict(terms[0]["c"]), k=terms[0]["k"]))
    return terms, ctx, xs


def wire_hints(hints, vm):
    return [{"t": G.w_term(h["t"], vm), "H": G.w_tl(h["H"], vm), "refine": h["refine"], "idx": h["idx"], "xs": [vm.i(x) for x in h["xs"] if x in vm.idx]}
            for h in hints if set(G.names_of([h["t"]], h["H"])) <= set(vm.idx)]


def _wrap_tlp(log: list):
    """record, for every _get_tlp_context call, the indices of the LP-active rows the implementation saw"""
    import numpy as np
    from pacti.terms.polyhedra import polyhedra as P

    orig_lp = P.linprog
    orig_tlp = P.PolyhedralTermList._get_tlp_context
    state = {"last": None}

    def lp(*a, **kw):
        r = orig_lp(*a, **kw)
        state["last"] = r
        return r

    def tlp(term, context, vars_to_elim, refine):
        state["last"] = None
        try:
            return orig_tlp(term, context, vars_to_elim, refine)
        finally:
            r = state["last"]
            if r is not None and r["status"] == 0 and r.get("slack") is not None:
                idx = [int(i) for i in np.where(np.isclose(r["slack"], 0))[0]]
                log.append({"t": G.un_term(term), "H": G.un_tl(context), "refine": bool(refine), "idx": idx, "xs": [str(x) for x in vars_to_elim]})

    P.linprog = lp
    P.PolyhedralTermList._get_tlp_context = staticmethod(tlp)

    def undo():
        P.linprog = orig_lp
        P.PolyhedralTermList._get_tlp_context = staticmethod(orig_tlp)

    return undo


def grid_cases():
    """bounded-exhaustive stream of the thorough tier: one term over (x eliminated, a kept), every context of one row over
    (x, b) or two rows over (x, y, b) / (y, b) from a small integer grid (y eliminated too), every singleton tactic order
    and the default one, both directions"""
    import itertools

    out = []
    terms = [{"c": {"x": float(cx), "a": float(ca)}, "k": float(k)} for cx in (-2, -1, 1, 2) for ca in (-1, 1) for k in (0, 2)]
    rows1 = [{"c": {v: float(c) for v, c in (("x", cx), ("b", cb)) if c != 0}, "k": float(k)} for cx in (-2, -1, 1, 2) for cb in (-1, 0, 1) for k in (-1, 1)]
    rowsxy = [{"c": {v: float(c) for v, c in (("x", cx), ("y", cy)) if c != 0}, "k": 1.0} for cx in (-1, 1, 2) for cy in (-1, 1)]
    rowsy = [{"c": {v: float(c) for v, c in (("y", cy), ("b", cb)) if c != 0}, "k": float(k)} for cy in (-1, 1) for cb in (-1, 0, 1) for k in (0, 2)]
    ctxs = [([r], ["x"]) for r in rows1] + [([r1, r2], ["x", "y"]) for r1 in rowsxy for r2 in rowsy]
    orders = [[1], [2], [3], [4], [5], [1, 2, 3, 4, 5]]
    for t, (ctx, xs), order, refine in itertools.product(terms, ctxs, orders, (True, False)):
        out.append({"kind": "elim", "terms": [t], "ctx": ctx, "xs": xs, "refine": refine, "simplify": False, "order": order, "tag": "grid"})
    return out


def _rename_case(case, old, new):
    def rt(t):
        return {"c": {(new if k == old else k): v for k, v in t["c"].items()}, "k": t["k"]}
    c = dict(case)
    for key in ("terms", "ctx", "H"):
        if key in c:
            c[key] = [rt(t) for t in c[key]]
    if "t" in c:
        c["t"] = rt(c["t"])
    c["xs"] = [new if x == old else x for x in c["xs"]]
    return c


def _underscore(rng, case):
    ts = [case["t"]] if case["kind"] == "tactic" else case["terms"]
    names = sorted(set(G.names_of(ts, case.get("H", case.get("ctx", []))) + case["xs"]))
    free = [n for n in names if n not in case["xs"]]
    pool = free if (free and rng.random() < 0.8) else names
    if not pool:
        return case
    c = _rename_case(case, rng.choice(pool), "_")
    c["tag"] = "uscore"
    if c["kind"] == "tactic":
        if rng.random() < 0.6:
            c["k"] = 3
    elif rng.random() < 0.5:
        c["order"] = [3] if rng.random() < 0.6 else [3, 1, 2]
    return c


class C04(Check):
    pid = "C04"
    title = "Variable elimination is implication-preserving for every tactic order"
    level_text = ("Lean theorems transform_refine_sound / transform_relax_sound (the whole _transform loop, any tactic order, any tactics that are sound, all list sizes), "
                  "elimRefine_sound / elimRelax_sound / elimRelax_no_elim_vars, and soundness of EVERY entry of the real tactic table (driver_tactics_sound: tactic1_sound — Kaykobad "
                  "context reduction through exact Gauss-Jordan, no hypothesis; tactic2_sound; tactic3_sound — needs the auxiliary variable to be fresh, read off the source; "
                  "tactic4_sound — substitution chains of any depth, needs the sign of isolate_variable, read off the source; tactic5_sound; trivial and declining tactics), hence "
                  "elimRefine_sound_real / elimRelax_sound_real for every tactic order; executable models of all five tactics, the dispatcher and both elimination entry points tied to polyhedra.py by structural "
                  "correspondence (result terms at 1e-9, tactic numbers); judge: exact certified LP entailment of the implementation's own results.")
    lean_modules = ["Pacti.Props.C04"]
    theorems = ["Pacti.C04.transform_refine_sound", "Pacti.C04.transform_relax_sound", "Pacti.C04.elimRefine_sound", "Pacti.C04.elimRelax_sound",
                "Pacti.C04.elimRelax_no_elim_vars", "Pacti.C04.tactic2_sound", "Pacti.C04.tactic4_sound", "Pacti.C04.isolate_sign_ok", "Pacti.C04.tactic5_sound", "Pacti.C04.tactic6_sound",
                "Pacti.C04.tactic1_sound", "Pacti.C04.tactic3_sound", "Pacti.C04.tactic3_fresh_ok",
                "Pacti.C04.driver_tactics_sound", "Pacti.C04.elimRefine_sound_real", "Pacti.C04.elimRelax_sound_real", "Pacti.C04.decline_leaves_term"]
    quick_n = 1400
    thorough_n = 50000
    judge_sample = 300
    trusted_base = [
        "Lean 4.33 kernel; axioms ⊆ {propext, Classical.choice, Quot.sound}",
        "hand-written model Model/Elim.lean tied to polyhedra.py by this correspondence run",
        "Gen/Consts.lean (isolate sign read off the source)",
        "HiGHS and sympy.solve are oracles: exact simplex through the proved certificate checker; exact Gauss-Jordan (singular systems are not modelled: judged only)",
        "tactic 5: the set of LP-active rows is solver dependent; the implementation's set is used if the driver verifies it is admissible",
    ]
    assumptions = ["floats denote exact rationals; numeric reading of the property (box 1000, 1e-4 relative tolerance)"]
    min_branches = {"tactic1:ok": 20, "tactic2:ok": 12, "tactic3:ok": 5, "tactic4:ok": 15, "tactic5:ok": 12, "tactic:declined": 100,
                    "elim:refine": 100, "elim:relax": 100, "uscore": 60, "uscore:tactic3-applied": 2, "xs-dup": 10, "mutual": 25}

    def generate(self, rng, n, tier):
        out = []
        for i in range(n):
            terms, ctx, xs = gen_structured(rng)
            if rng.random() < 0.15 and ctx:
                ctx = ctx + [dict(c=dict(ctx[0]["c"]), k=ctx[0]["k"])]
            refine = rng.random() < 0.6
            mutual = len(terms) == 2 and all("y" in t["c"] for t in terms)
            if mutual:
                order = [1, 2, 3, 4, 5] if rng.random() < 0.6 else rng.sample([1, 2, 3, 4, 5], rng.randint(2, 5))
                out.append({"kind": "elim", "terms": terms, "ctx": ctx, "xs": xs, "refine": rng.random() < 0.8, "simplify": rng.random() < 0.5, "order": order, "tag": "mutual"})
            elif rng.random() < 0.5 and set(terms[0]["c"]) & set(xs):
                out.append({"kind": "tactic", "k": rng.randint(1, 5), "t": terms[0], "H": ctx, "xs": xs, "refine": refine})
            else:
                r = rng.random()
                if r < 0.45:
                    order = [rng.randint(1, 5)]
                elif r < 0.65:
                    order = [1, 2, 3, 4, 5]
                else:
                    order = rng.sample([1, 2, 3, 4, 5], rng.randint(1, 5))
                extra = G.rtl(rng, KEEP, rng.randint(0, 1)) if rng.random() < 0.3 else []
                out.append({"kind": "elim", "terms": terms + extra, "ctx": ctx, "xs": xs, "refine": refine, "simplify": rng.random() < 0.5, "order": order})
            r = rng.random()
            if r < 0.12:
                # a user variable that is called "_" (the name tactic 3 used to reserve for its auxiliary variable)
                out[-1] = _underscore(rng, out[-1])
            elif r < 0.15:
                # a repeated entry in the variables to eliminate
                c = out[-1]
                c["xs"] = c["xs"] + [rng.choice(c["xs"])]
                c["tag"] = "xs-dup"
        if tier == "thorough":
            out.extend(grid_cases())
        return out

    def run_impl(self, case):
        from pacti.iocontract import Var
        from pacti.terms.polyhedra import PolyhedralTermList

        hints: list = []
        undo = _wrap_tlp(hints)
        try:
            xs = [Var(v) for v in case["xs"]]
            if case["kind"] == "tactic":
                try:
                    r, _ = PolyhedralTermList.TACTICS[case["k"]](G.mk_term(case["t"]), G.mk_tl(case["H"]), xs, case["refine"])
                except Exception as e:
                    return {"err": C.classify_exc(e), "hints": hints}
                return {"ok": None if r is None else G.un_term(r), "hints": hints}
            tl, ctx = G.mk_tl(case["terms"]), G.mk_tl(case["ctx"])
            f = tl.elim_vars_by_refining if case["refine"] else tl.elim_vars_by_relaxing
            try:
                r, used = f(ctx, xs, case["simplify"], list(case["order"]))
            except Exception as e:
                out = {"err": C.classify_exc(e), "hints": hints}
                # C14: an error leaves all operands usable (and unchanged)
                if G.un_tl(tl) != G.un_tl(G.mk_tl(case["terms"])) or G.un_tl(ctx) != G.un_tl(G.mk_tl(case["ctx"])):
                    out["damage"] = f"operand changed: terms {G.un_tl(tl)} context {G.un_tl(ctx)}"
                return out
            return {"ok": G.un_tl(r), "tactics": [int(u[0]) for u in used], "hints": hints}
        finally:
            undo()

    def _vm(self, case):
        names = G.names_of([case["t"]] if case["kind"] == "tactic" else case["terms"], case.get("H", case.get("ctx", []))) + case["xs"]
        return C.VarMap(names)

    def model_request(self, case, impl):
        vm = self._vm(case)
        hints = wire_hints(impl.get("hints", []), vm)
        if case["kind"] == "tactic":
            return {"op": "tactic", "k": case["k"], "t": G.w_term(case["t"], vm), "H": G.w_tl(case["H"], vm), "xs": vm.vars(case["xs"]),
                    "refine": case["refine"], "hints": hints}
        return {"op": "elim", "terms": G.w_tl(case["terms"], vm), "ctx": G.w_tl(case["ctx"], vm), "xs": vm.vars(case["xs"]), "refine": case["refine"],
                "simplify": case["simplify"], "order": case["order"], "hints": hints}

    def compare(self, case, impl, model):
        vm = self._vm(case)
        if case["kind"] == "tactic":
            def same(mo):
                if "err" in impl or "err" in mo:
                    return impl.get("err") == mo.get("err") and ("err" in impl) == ("err" in mo)
                if impl["ok"] is None or mo["ok"] is None:
                    return impl["ok"] is None and mo["ok"] is None
                return C.terms_close(G.w_term(impl["ok"], vm), mo["ok"])

            if same(model) or same(model.get("alt", model)):
                return None
            if model.get("hint_ok") is False:
                return "TIE: LP-active set of the implementation not admissible for the exact optimum (solver-dependent choice)"
            return f"impl {impl.get('err', impl.get('ok'))} vs model {model.get('err', model.get('ok'))}"
        alts = [model, model.get("alt", model)]
        if "err" in impl:
            if any(a.get("err") == impl["err"] for a in alts):
                return None
            if any(a.get("err") == impl["err"] for a in model.get("near", [])):
                return "TIE: float near-tie (reproduced when every LP optimum is nudged by 1e-10 or every LP is solved inside |v| <= 1e9: float near-tie or a slope below float resolution)"
            return f"impl {impl['err']} vs model {[a.get('err', 'ok') for a in alts]}"
        w = G.w_tl(impl["ok"], vm)
        for a in alts:
            if "ok" in a and C.tls_close(w, a["ok"]) and [int(x) for x in a["tactics"]] == impl["tactics"]:
                return None
        for a in model.get("near", []):
            if "ok" in a and C.tls_close(w, a["ok"]) and [int(x) for x in a["tactics"]] == impl["tactics"]:
                return "TIE: float near-tie (reproduced when every LP optimum is nudged by 1e-10 or every LP is solved inside |v| <= 1e9: float near-tie or a slope below float resolution)"
        if json.dumps(alts[0].get("ok"), sort_keys=True) != json.dumps(alts[1].get("ok"), sort_keys=True):
            return "TIE: exact ties in simplification resolved in a mixed way"
        a = alts[0]
        return f"impl {impl['ok']} tactics {impl.get('tactics')} vs model {[C.wire_to_str(t, vm) for t in a.get('ok', [])] if 'ok' in a else a.get('err')} tactics {a.get('tactics')}"

    def judge(self, case, impl):
        if "err" in impl:
            if impl["err"] not in ("ValueError", "IncompatibleArgsError"):
                site = f"tactic{case['k']}" if case["kind"] == "tactic" else "elim"
                return {"signature": f"undocumented-exception:{impl['err']}@{site}", "what": f"{impl['err']} escaped from {site}", "witness": case}
            return None
        refine = case["refine"]
        if case["kind"] == "tactic":
            r = impl["ok"]
            if r is None:
                return None
            t, H = case["t"], case["H"]
            pt = J.entails(H + [r], t) if refine else J.entails(H + [t], r)
            if pt is not None:
                return {"signature": f"tactic{case['k']}:{'refine' if refine else 'relax'}-unsound",
                        "what": f"tactic {case['k']} returned {r} for {t}: " + ("result with context does not imply the term" if refine else "result is not implied by term and context"),
                        "witness": {"point": J.pt_str(pt)}}
            return None
        l, ctx, r = case["terms"], case["ctx"], impl["ok"]
        bad = None
        if refine:
            for t in l:
                pt = J.entails(ctx + r, t)
                if pt is not None:
                    bad = (t, pt, "refined list with context does not imply original term")
                    break
        else:
            for t in r:
                if set(t["c"]) & set(case["xs"]):
                    return {"signature": "elim:relax-leaves-eliminated-variable", "what": f"relaxed term {t} mentions an eliminated variable", "witness": case}
                pt = J.entails(ctx + l, t)
                if pt is not None:
                    bad = (t, pt, "relaxed term is not implied by the original list and context")
                    break
        if bad is None:
            return None
        used = sorted(set(k for k in impl.get("tactics", []) if k > 0))
        return {"signature": f"elim:{'refine' if refine else 'relax'}-unsound:tactics={used}", "what": f"{bad[2]}: {bad[0]}", "witness": {"point": J.pt_str(bad[1])}}

    def branch(self, case, impl, model):
        b = []
        if case["kind"] == "tactic":
            if impl.get("ok") is not None:
                b.append(f"tactic{case['k']}:ok")
            else:
                b.append("tactic:declined")
        else:
            b.append("elim:refine" if case["refine"] else "elim:relax")
            for k in set(impl.get("tactics", [])):
                b.append(f"elim:used{k}")
        if model and model.get("hint_ok") is False:
            b.append("hint-rejected")
        if case.get("tag") == "uscore":
            b.append("uscore")
            if (case["kind"] == "tactic" and case["k"] == 3 and impl.get("ok") is not None) or 3 in impl.get("tactics", []):
                b.append("uscore:tactic3-applied")
        if case.get("tag") == "xs-dup":
            b.append("xs-dup")
        if case.get("tag") == "mutual":
            b.append("mutual")
        if case.get("tag") == "grid":
            b.append("grid")
        return b

    def nontrivial(self, case, impl):
        ts = [case["t"]] if case["kind"] == "tactic" else case["terms"]
        return any(set(t["c"]) & set(case["xs"]) for t in ts)


CHECK = C04()
