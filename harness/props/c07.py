"""C07: contract construction (`IoContract.__init__` with simplify, and `IoContract.simplify()`): guarantees redundant only through
a CHAIN of assumptions that share no variable with the guarantees, planted duplicates and combinations; and
(constraint list, context) with <= 6 terms over <= 5 variables: random feasible lists with planted redundant
terms (duplicates, positive scalings, positive combinations, terms implied only through the context), tight and
nearly-tight (margin 1e-3) redundancies, infeasible systems, systems infeasible only with the context, calls without
context and with an empty context, single-row lists.  Non-trivial = the list has >= 2 terms or a context."""
from __future__ import annotations

import random
from fractions import Fraction
from typing import List, Optional

from .. import common as C
from .. import contracts as K
from .. import gen as G
from .. import judge as J
from ..framework import Check


class C07(Check):
    pid = "C07"
    title = "Simplification never changes meaning and leaves nothing redundant"
    level_text = 'Lean theorems ctor_simplify / ctor_behaviours / ctor_error (contract construction and IoContract.simplify(): assumptions untouched, guarantees a selection equivalent under the assumptions with nothing redundant left, behaviours of assumptions-with-guarantees unchanged) and simplify_selection / simplify_equiv / simplify_irredundant / simplify_error_infeasible (and their matrix-level core_* versions) for the executable model of simplify / reduce_polytope, for every tie resolution and every certified LP oracle; tied to the code by comparing the kept sub-list (and the constructed contract) (exact structure, 1e-9 numbers) under both tie resolutions; judge: selection, equivalence in context and droppability with margin by certified exact LP.'
    lean_modules = ["Pacti.Props.C07", "Pacti.Props.C07Ctor"]
    theorems = ["Pacti.C07.simplify_selection", "Pacti.C07.simplify_equiv", "Pacti.C07.simplify_error_infeasible",
                "Pacti.C07.simplify_irredundant", "Pacti.C07.core_selection", "Pacti.C07.core_equiv", "Pacti.C07.core_error",
                "Pacti.C07.core_irredundant", "Pacti.C07.ctor_simplify", "Pacti.C07.ctor_behaviours", "Pacti.C07.ctor_error"]
    quick_n = 1500
    thorough_n = 60000
    judge_sample = 400
    trusted_base = [
        "Lean 4.33 kernel; axioms ⊆ {propext, Classical.choice, Quot.sound}",
        "hand-written model Model/Poly.lean (simplify, simplifyCore, reduce) tied to PolyhedralTermList.simplify / reduce_polytope by this correspondence run",
        "exact ties (LP optimum = bound) are legitimate non-determinism of the float comparison: the theorems hold for every tie resolution; the run accepts the all-drop and the all-keep resolution and judges the rest",
        "HiGHS is an oracle (certificate-checked exact simplex on the model side)",
    ]
    assumptions = ["floats denote exact rationals", "terms mention at least one variable"]
    min_branches = {"ok": 300, "ValueError": 30, "dropped": 200, "ctx:none": 100, "ctor:init": 10, "ctor:method": 5, "ctor:dropped": 10, "ctor:chain": 8}

    def generate(self, rng, n, tier):
        out = []
        for i in range(n):
            vs = G.VARS[: rng.randint(1, 5)]
            pt = {v: float(rng.randint(-3, 3)) for v in vs}
            base = G.feasible_tl(rng, vs, rng.randint(1, 4), point=pt)
            ctx_mode = rng.random()
            ctx: Optional[List[dict]]
            if ctx_mode < 0.3:
                ctx = None
            elif ctx_mode < 0.4:
                ctx = []
            else:
                ctx = G.feasible_tl(rng, vs, rng.randint(1, 3), point=pt)
            l = list(base)
            m = rng.random()
            if m < 0.15:
                l.append(dict(c=dict(l[0]["c"]), k=l[0]["k"]))          # duplicate
            elif m < 0.3:
                l.append(G.scale_term(rng.choice(l), rng.choice([2.0, 3.0, 0.5])))  # scaling
            elif m < 0.5:
                srcs = l + (ctx or [])
                ws = [float(rng.choice([0, 1, 1, 2])) for _ in srcs]
                if not any(ws):
                    ws[0] = 1.0
                t = G.add_terms(srcs, ws, extra=rng.choice([0.0, 0.0, 1.0, 1e-3]))
                if t["c"]:
                    l.insert(rng.randint(0, len(l)), t)
            elif m < 0.6 and ctx:
                l.append(dict(c=dict(ctx[0]["c"]), k=ctx[0]["k"] + rng.choice([0.0, 1.0])))  # implied by / equal to a context row
            elif m < 0.7:
                t = rng.choice(l)
                l.append(dict(c=dict(t["c"]), k=t["k"] + rng.choice([1e-3, -1e-3, 1.0])))   # nearly tight parallel
            elif m < 0.8:
                t = G.rterm(rng, vs)
                l += [t, {"c": {v: -c for v, c in t["c"].items()}, "k": -t["k"] - rng.choice([1.0, 0.5])}]  # infeasible
            elif m < 0.87 and ctx:
                t = rng.choice(ctx)
                l.append({"c": {v: -c for v, c in t["c"].items()}, "k": -t["k"] - 1.0})        # infeasible only with context
            elif m < 0.9 and ctx:
                t = rng.choice(ctx)
                v0 = sorted(t["c"])[0]
                near = {"c": {v: (x * (1 + 5e-6) if v == v0 else x) for v, x in t["c"].items()}, "k": t["k"]}
                l.insert(rng.randint(0, len(l)), near)                                              # almost a context row: must NOT be dropped syntactically
            elif m < 0.94 and ctx:
                t = rng.choice(ctx)
                l = [dict(c=dict(t["c"]), k=t["k"]), dict(c=dict(t["c"]), k=t["k"] + float(rng.randint(1, 4)))] + l   # shared verbatim row first; the next is redundant only through it
            elif m < 0.97:
                l = G.rtl(rng, vs, rng.randint(1, 6))
            if rng.random() < 0.3:
                rng.shuffle(l)
            case = {"terms": l[:6], "ctx": ctx}
            if ctx and rng.random() < 0.3:
                used = sorted({v for t in l[:6] for v in t["c"]})
                if used:
                    case["prelude"] = rng.choice(used)
            out.append(case)
        if tier == "thorough":
            # bounded-exhaustive: every ordered pair of rows over (a, b) with coefficients and constants in {-1, 0, 1}, without a
            # context and with every one-row context (14 400 cases)
            rows = G.grid_rows()
            for l in G.grid_lists(rows, 2):
                if len(l) != 2:
                    continue
                out.append({"terms": l, "ctx": None, "tag": "grid"})
                for c0 in rows:
                    out.append({"terms": [dict(c=dict(t["c"]), k=t["k"]) for t in l], "ctx": [dict(c=dict(c0["c"]), k=c0["k"])], "tag": "grid"})
        # contract construction: "contract.g after construction"
        for i in range(max(40, n // 8)):
            out.append(gen_ctor(rng))
        return out

    def run_impl(self, case):
        if case.get("kind") == "ctor":
            if case["via"] == "init":
                c = G.mk_contract(case["c"], simplify=True)
            else:
                c = G.mk_contract(case["c"], simplify=False)
                c.simplify()
            return {"ok": G.un_contract(c)}
        tl = G.mk_tl(case["terms"])
        ctx = None if case["ctx"] is None else G.mk_tl(case["ctx"])
        if ctx is not None and case.get("prelude"):
            # an unrelated-looking earlier use of an EQUAL list in an equal context (a relaxation that eliminates one of its
            # variables, result discarded): with pure operations the simplification that follows cannot tell
            try:
                G.mk_tl(case["terms"]).elim_vars_by_relaxing(G.mk_tl(case["ctx"]), [case["prelude"]], simplify=True)
            except Exception:  # noqa: BLE001  (its own outcome is C04's subject)
                pass
        r = tl.simplify(ctx) if ctx is not None else tl.simplify()
        return {"ok": G.un_tl(r)}

    def model_request(self, case, impl):
        if case.get("kind") == "ctor":
            vm = C.VarMap(K.all_names(case["c"]))
            return {"op": "ctor", "c1": K.w_contract(case["c"], vm), "simplify": True}
        vm = C.VarMap(G.names_of(case["terms"], case["ctx"] or []))
        return {"op": "simplify", "terms": G.w_tl(case["terms"], vm), "ctx": None if case["ctx"] is None else G.w_tl(case["ctx"], vm)}

    def compare(self, case, impl, model):
        if case.get("kind") == "ctor":
            return K.compare_contract_result(impl, model, C.VarMap(K.all_names(case["c"])))
        vm = C.VarMap(G.names_of(case["terms"], case["ctx"] or []))
        alts = [model, model.get("alt", model)]
        if "err" in impl:
            if any(a.get("err") == impl["err"] for a in alts):
                return None
            if any(a.get("err") == impl["err"] for a in model.get("near", [])):
                return "TIE: float near-tie (reproduced when every LP optimum is nudged by 1e-10 or every LP is solved inside |v| <= 1e9: float near-tie or a slope below float resolution)"
            return f"impl {impl['err']} vs model {[a.get('err', 'ok') for a in alts]}"
        w = G.w_tl(impl["ok"], vm)
        for a in alts:
            if "ok" in a and C.tls_close(w, a["ok"]):
                return None
        for a in model.get("near", []):
            if "ok" in a and C.tls_close(w, a["ok"]):
                return "TIE: float near-tie (reproduced when every LP optimum is nudged by 1e-10 or every LP is solved inside |v| <= 1e9: float near-tie or a slope below float resolution)"
        if alts[0] != {k: v for k, v in alts[1].items()} and json_ne(alts[0], alts[1]):
            return "TIE: implementation resolved exact ties in a mixed way"
        return f"impl kept {len(impl['ok'])} rows, model {[len(a['ok']) if 'ok' in a else a.get('err') for a in alts]}"

    def judge(self, case, impl):
        if case.get("kind") == "ctor":
            if "err" in impl:
                # the constructor's own interface errors are C06's; a feasibility ValueError is judged like simplify's
                l, ctx = case["c"]["g"], case["c"]["a"]
                if impl["err"] == "ValueError":
                    feas, pt = J.feasible(l + ctx)
                    if feas:
                        return {"signature": "ctor:ValueError-on-feasible", "what": "ValueError although guarantees and assumptions are jointly feasible", "witness": J.pt_str(pt)}
                    return None
                return {"signature": "ctor:undocumented-exception:" + impl["err"], "what": str(impl)[:300], "witness": case}
            r = impl["ok"]
            if not all(any(_close(t, u) for u in case["c"]["a"]) for t in r["a"]) or len(r["a"]) != len(case["c"]["a"]):
                return {"signature": "ctor:assumptions-changed", "what": f"assumptions {r['a']} differ from the given {case['c']['a']}", "witness": case}
            v = self.judge({"terms": case["c"]["g"], "ctx": case["c"]["a"]}, {"ok": r["g"]})
            if v is not None:
                v = dict(v, signature="ctor:" + v["signature"].split(":", 1)[1], what="contract.g after construction: " + v["what"])
            return v
        l, ctx = case["terms"], (case["ctx"] or [])
        if "err" in impl:
            if impl["err"] != "ValueError":
                return {"signature": "simplify:undocumented-exception:" + impl["err"], "what": str(impl), "witness": case}
            feas, pt = J.feasible(l + ctx)
            if feas:
                return {"signature": "simplify:ValueError-on-feasible", "what": "ValueError although the constraints are feasible in the context",
                        "witness": J.pt_str(pt)}
            return None
        r = impl["ok"]
        # 1. selection
        i = 0
        for t in r:
            while i < len(l) and not _close(t, l[i]):
                i += 1
            if i == len(l):
                return {"signature": "simplify:not-a-selection", "what": f"result term {t} is not one of the original terms (in order)", "witness": case}
            i += 1
        # 2. equivalence in context: ctx ∧ r ⊨ every dropped t
        eff_l = l
        for t in eff_l:
            if any(_close(t, u) for u in r):
                continue
            pt = J.entails(ctx + r, t)
            if pt is not None:
                return {"signature": "simplify:meaning-changed", "what": f"dropped term {t} is not implied by the result in the context",
                        "witness": J.pt_str(pt)}
        # 3. irredundancy with margin
        for j, t in enumerate(r):
            others = r[:j] + r[j + 1:]
            if not others and not ctx:
                continue
            # droppable = implied by the others EVERYWHERE (no box: a row implied only inside |v| <= 1000 is not redundant, dropping it
            # would change the meaning outside the box)
            st, m, pt = J.exact_max(t["c"], ctx + others)
            if st == "infeasible":
                continue
            k = C.q(t["k"])
            if st == "optimal" and m <= k - J.TOL * (1 + abs(k)) and not (case["ctx"] is not None and len(case["ctx"]) and not G.names_of(case["terms"], case["ctx"])):
                # implied with a margin by the others: droppable.  (context rows identical to t are removed syntactically first)
                return {"signature": "simplify:redundant-row-left", "what": f"surviving term {t} is implied with margin by the other survivors and the context (max {m} vs bound {k})",
                        "witness": case}
        return None

    def branch(self, case, impl, model):
        if case.get("kind") == "ctor":
            b = ["ctor:" + case["via"]]
            if "ok" in impl and len(impl["ok"]["g"]) < len(case["c"]["g"]):
                b.append("ctor:dropped")
            if case.get("chain"):
                b.append("ctor:chain")
            return b
        b = ["ValueError" if impl.get("err") == "ValueError" else ("ok" if "ok" in impl else impl.get("err", "?"))]
        if "ok" in impl and len(impl["ok"]) < len(case["terms"]):
            b.append("dropped")
        b.append("ctx:none" if case["ctx"] is None else ("ctx:empty" if not case["ctx"] else "ctx:some"))
        if model and json_ne(model.get("ok"), (model.get("alt") or {}).get("ok")):
            b.append("tie-sensitive")
        return b

    def nontrivial(self, case, impl):
        if case.get("kind") == "ctor":
            return len(case["c"]["g"]) >= 2 or bool(case["c"]["a"])
        return len(case["terms"]) >= 2 or bool(case["ctx"])


def gen_ctor(rng: random.Random) -> dict:
    """a contract whose guarantees contain terms redundant given the assumptions — in particular through a chain of
    assumptions of which only the first shares a variable with the guarantees"""
    ins, outs = ["i", "j", "k"][: rng.randint(2, 3)], ["o", "p"][: rng.randint(1, 2)]
    sg = rng.choice([1.0, -1.0])
    kk = lambda: float(rng.choice([1, 2, 3]))  # noqa: E731
    b = float(rng.randint(0, 5))
    a, g = [], []
    chain = rng.random() < 0.5
    if chain:
        # i - j <= 0 (sg), j <= b  ==> i <= b + margin is redundant, but only through j, which no guarantee mentions
        a = [{"c": {"i": sg, "j": -sg}, "k": 0.0}, {"c": {"j": sg}, "k": b}]
        if len(ins) == 3 and rng.random() < 0.5:
            a = [{"c": {"i": sg, "j": -sg}, "k": 0.0}, {"c": {"j": sg, "k": -sg}, "k": 1.0}, {"c": {"k": sg}, "k": b - 1.0}]
        g.append({"c": {"i": sg * 1.0}, "k": b + float(rng.choice([1, 2, 5]))})
    else:
        a = G.bound_tl(rng, ins) if hasattr(G, "bound_tl") else [{"c": {v: sg}, "k": b} for v in ins[: rng.randint(1, len(ins))]]
        if rng.random() < 0.6 and a:
            t = rng.choice(a)
            g.append({"c": dict(t["c"]), "k": t["k"] + float(rng.choice([0, 1, 2]))})     # implied by / equal to an assumption
    for o in outs:
        g.append({"c": {o: kk() * rng.choice([-1.0, 1.0]), rng.choice(ins): kk() * rng.choice([-1.0, 1.0])}, "k": float(rng.randint(-2, 5))})
    if rng.random() < 0.4:
        t = rng.choice(g)
        g.append(G.scale_term(t, rng.choice([2.0, 0.5])) if rng.random() < 0.5 else {"c": dict(t["c"]), "k": t["k"] + 1.0})
    if rng.random() < 0.3:
        rng.shuffle(g)
    return {"kind": "ctor", "via": "init" if rng.random() < 0.7 else "method", "c": {"ins": ins, "outs": outs, "a": a, "g": g}, "chain": chain}


def json_ne(a, b):
    import json

    sa = {k: v for k, v in a.items() if k not in ("id", "alt")} if isinstance(a, dict) else a
    sb = {k: v for k, v in b.items() if k not in ("id", "alt")} if isinstance(b, dict) else b
    return json.dumps(sa, sort_keys=True) != json.dumps(sb, sort_keys=True)


def _close(t, u):
    vm = C.VarMap(list(t["c"]) + list(u["c"]))
    return C.terms_close(G.w_term(t, vm), G.w_term(u, vm))


CHECK = C07()
