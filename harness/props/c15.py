"""C15: composable / mergeable pairs of polyhedral contracts weighted towards overlapping guarantees: identical, scaled
and mutually implied interface-level terms on both sides, with and without connections, both call orders, simplify
on/off; merge likewise.  Non-trivial = some operand guarantee mentions only variables of the result's interface."""
from __future__ import annotations

import random

from .. import common as C
from .. import contracts as K
from .. import gen as G
from ..framework import Check
from .c01 import rand_order


def iface_terms(case, res):
    iface = set(res["ins"]) | set(res["outs"])
    return [t for t in case["c1"]["g"] + case["c2"]["g"] if set(t["c"]) <= iface]


class C15(Check):
    pid = "C15"
    title = "Composition and merging never forget an interface-level guarantee"
    level_text = ("Lean theorems compose_keeps_iface_guarantee (every operand guarantee over the result's interface is implied by the result's assumptions and guarantees, for "
                  "every wiring / kept set / flag / order and ANY tactic table - no soundness hypothesis needed), compose_exact_unconnected (no internal variable: assumptions "
                  "and guaranteed behaviours are exactly the conjunctions) and merge_keeps_iface_guarantee, for the model of compose_tactics / merge (generated interface "
                  "code, proved simplify and relaxation filters); whole-operation correspondence; exact certified judge.")
    lean_modules = ["Pacti.Props.C15"]
    theorems = ["Pacti.C15.compose_keeps_iface_guarantee", "Pacti.C15.compose_exact_unconnected", "Pacti.C15.merge_keeps_iface_guarantee"]
    quick_n = 400
    thorough_n = 15000
    judge_sample = 400
    trusted_base = [
        "Lean 4.33 kernel; axioms ⊆ {propext, Classical.choice, Quot.sound}",
        "Model/Algebra.lean + generated Gen/Iface.lean, Model/Elim.lean, Model/Poly.lean tied to the code by this correspondence run",
        "HiGHS / sympy.solve are oracles (certificate-checked exact simplex; exact Gauss-Jordan)",
    ]
    assumptions = ["floats denote exact rationals; numeric reading of the property"]
    min_branches = {"ok": 150, "overlap": 30, "unconnected": 15, "merge": 40, "near-duplicate": 15, "twin": 20}

    def generate(self, rng, n, tier):
        out = []
        for _ in range(n):
            c1, c2, w = K.gen_pair(rng, overlap=0.6)
            if rng.random() < 0.25:
                # mutually implied interface-level terms: c2 repeats a scaled / weakened copy of a c1 guarantee over shared variables
                shared = set(c1["ins"] + c1["outs"]) & set(c2["ins"] + c2["outs"])
                cand = [t for t in c1["g"] if set(t["c"]) <= shared]
                if cand:
                    t = rng.choice(cand)
                    c2["g"].append(dict(c={v: x * 2.0 for v, x in t["c"].items()}, k=t["k"] * 2.0 + rng.choice([0.0, 1.0])))
            is_merge = rng.random() < 0.2
            outs = c1["outs"] + [v for v in c2["outs"] if v not in c1["outs"]]
            keep = [v for v in outs if rng.random() < 0.3]
            if rng.random() < 0.35:
                # nearly identical interface-level terms: same variables and constant, one coefficient 6e-6 (relative) away.  Both are
                # guarantees the result must keep: the half-spaces differ by more than the reading's tolerance inside the box.
                shared = set(c1["ins"] + c1["outs"]) & set(c2["ins"] + c2["outs"])
                if not is_merge:
                    internal = ((set(c1["outs"]) & set(c2["ins"])) | (set(c2["outs"]) & set(c1["ins"]))) - set(keep)
                    if len(shared - internal) >= 2 or rng.random() < 0.7:
                        shared = shared - internal
                cand = [t for t in c1["g"] if set(t["c"]) <= shared and len(t["c"]) >= 2 and max(abs(x) for x in t["c"].values()) >= 1.0 and abs(t["k"]) <= 20]
                if not cand and len(shared) >= 2:
                    v1, v2 = rng.sample(sorted(shared), 2)
                    t = dict(c={v1: float(rng.choice([1, 2, 3])) * rng.choice([-1.0, 1.0]), v2: float(rng.choice([1, 2])) * rng.choice([-1.0, 1.0])}, k=float(rng.randint(-3, 6)))
                    c1["g"].append(t)
                    cand = [t]
                if cand:
                    t = rng.choice(cand)
                    v0 = max(t["c"], key=lambda v: abs(t["c"][v]))
                    nc = dict(t["c"])
                    nc[v0] = nc[v0] * (1.0 + rng.choice([-1.0, 1.0]) * rng.choice([6e-6, 4e-7]))   # 4e-7: alike to six significant digits
                    c2["g"].append(dict(c=nc, k=t["k"], near=True))
            if is_merge:
                out.append({"op": "merge", "c1": c1, "c2": c2, "w": w})
                continue
            out.append({"op": "compose", "c1": c1, "c2": c2, "keep": keep, "simplify": rng.random() < 0.6, "order": rand_order(rng), "w": w})
        # twins: two consecutive problems that PRINT alike (they differ beyond the fourth significant digit).  In the first a
        # guarantee of one viewpoint is redundant (margin 1e-3) under the other's assumption and guarantee; in the second it is not.
        # Consecutive cases run in the same worker process, so a result carried over from the first problem shows in the second.
        for _ in range(max(12, n // 25)):
            c = float(rng.choice([2, 3, 4]))
            k = float(rng.randint(0, 4))
            sg = rng.choice([1.0, -1.0])

            def pair(cc):
                p1 = {"ins": ["i", "j"], "outs": ["o"], "a": [{"c": {"i": sg, "j": -sg * cc}, "k": 0.0}], "g": [{"c": {"o": sg, "i": -sg}, "k": k}]}
                p2 = {"ins": ["i", "j"], "outs": ["o"], "a": [], "g": [{"c": {"o": sg, "j": -sg * c}, "k": k + 1e-3}]}
                return p1, p2
            for cc in (c, c * (1 + 2e-4)):
                p1, p2 = pair(cc)
                if rng.random() < 0.5:
                    out.append({"op": "merge", "c1": p1, "c2": p2, "w": "twin"})
                else:
                    out.append({"op": "merge", "c1": p2, "c2": p1, "w": "twin"})
        return out

    def run_impl(self, case):
        return K.run_op(case)

    def model_request(self, case, impl):
        if impl.get("stage") == "operands":
            return None
        return K.model_req(case, impl)

    def compare(self, case, impl, model):
        return K.compare_contract_result(impl, model, K.case_vm(case))

    def judge(self, case, impl):
        if "err" in impl:
            if impl["err"] not in ("IncompatibleArgsError", "ValueError"):
                return {"signature": case["op"] + ":undocumented-exception:" + impl["err"], "what": str(impl)[:300], "witness": case}
            return None
        c = impl["ok"]
        c1, c2 = case["c1"], case["c2"]
        its = iface_terms(case, c)
        pts = K.entails_batch([(c["a"] + c["g"], t) for t in its])
        for t, pt in zip(its, pts):
            if pt is not None:
                return {"signature": f"{case['op']}:forgets-interface-guarantee", "what": f"operand guarantee {t} over the result's interface is not enforced by the result",
                        "witness": {"point": K.J.pt_str(pt), "result": c}}
        if case["op"] == "compose":
            connected = (set(c1["outs"]) & set(c2["ins"])) | (set(c2["outs"]) & set(c1["ins"]))
            if not connected:
                bad = K.judge_equiv([], c["a"], c1["a"] + c2["a"])
                if bad:
                    return {"signature": "compose:unconnected-assumptions-not-exact", "what": str(bad)[:300], "witness": bad}
                bad = K.judge_equiv(c["a"], c["g"], c1["g"] + c2["g"])
                if bad:
                    return {"signature": "compose:unconnected-guarantees-not-exact", "what": str(bad)[:300], "witness": bad}
        return None

    def branch(self, case, impl, model):
        b = [impl.get("err", "ok")]
        c1, c2 = case["c1"], case["c2"]
        k1 = {G.mk_key(t) for t in c1["g"]}
        if any(G.mk_key(t) in k1 for t in c2["g"]):
            b.append("overlap")
        if any(t.get("near") for t in c2["g"]):
            b.append("near-duplicate")
        if case.get("w") == "twin":
            b.append("twin")
        if case["op"] == "merge":
            b.append("merge")
        elif not ((set(c1["outs"]) & set(c2["ins"])) | (set(c2["outs"]) & set(c1["ins"]))):
            b.append("unconnected")
        return b

    def nontrivial(self, case, impl):
        return "ok" in impl and bool(iface_terms(case, impl["ok"]))


CHECK = C15()
