"""C14 (dictionary / file-entry part): seed contract dictionaries in both representations (machine and string, plus
compound file entries) -> EVERY single-field deletion and type change (to null, number, string, list, dict, bool)
of every field at every depth, exhaustively, each pushed through (i) validate_contract_dict + from_dict /
from_strings, (ii) from_dict alone, (iii) a real file through read_contracts_from_file (file-level faults included:
top level not a list, entry not a dict, entry without "type"/"data"/"name", unknown type, a fault in the second of
two entries); adversarial constraint strings ("(1/0)x <= 1", …) through from_strings, dictionaries and files; random
constant expressions with planted zero divisors.  The exception class of every call is classified and compared with
the Lean model's error kind; after every call the operand is deep-compared with a snapshot and re-used in a second
call that must behave as on a fresh copy.  Non-trivial = every case (each is a distinct fault).

Which Python-level coercions count as "read as something else" (decided from the property text: a field of the
wrong KIND must be rejected):
  * a number is a JSON number (`int`/`float`) and NOT a boolean: `true` for a constant or coefficient is a wrong kind
    (`float(True)` = 1.0 is a misreading), and so is the string "3" (`float("3")`), `null`, a list, a dict;
  * a list of strings is a list: a string must not be iterated character by character into variables or constraints,
    a dict must not be iterated into its keys, "" / {} / null must not be read as "no constraints";
  * a variable name / constraint is a string: `Var(3)` (named "3") is a misreading;
  * the entry's "name" is a string, "data" a dictionary, "type" one of the three known strings (an unknown type is
    rejected with ValueError by the pinned code already — documented, fine);
  * NOT demanded: rejecting extra keys, empty names, `2` where `2.0` was written (both are numbers), zero coefficients
    (dropped by the constructor), non-finite floats (not JSON).
A well-kinded dictionary must be read as exactly the contract it denotes (fields compared exactly) or fail with the
constructor's / parser's own documented error; rejecting it with ContractFormatError is reported too
(`valid-dictionary-rejected`), which is what keeps an over-strict repair honest.

More case kinds (the exception class of the calls of the other checks) plug in through `KINDS`: a kind provides
`run`, `request`, `compare`, `judge`, `branch`.
"""
from __future__ import annotations

import contextlib
import copy
import io
import json
import os
import random
import tempfile
import traceback
from fractions import Fraction
from typing import Any, Callable, Dict, List, Optional, Tuple

from .. import common as C
from ..framework import Check

KW = ("assumptions", "guarantees", "input_vars", "output_vars")
T_MACHINE, T_STRINGS, T_COMPOUND = "PolyhedralIoContract_machine", "PolyhedralIoContract", "PolyhedralIoContractCompound"

# ------------------------------------------------------------------------------------------------
# fault enumeration


def paths(j: Any, pre: Tuple = ()):
    yield pre
    if isinstance(j, dict):
        for k, v in j.items():
            yield from paths(v, pre + (k,))
    elif isinstance(j, list):
        for i, v in enumerate(j):
            yield from paths(v, pre + (i,))


def getp(j: Any, p: Tuple) -> Any:
    for k in p:
        j = j[k]
    return j


def setp(j: Any, p: Tuple, v: Any) -> Any:
    if not p:
        return copy.deepcopy(v)
    j = copy.deepcopy(j)
    getp(j, p[:-1])[p[-1]] = copy.deepcopy(v)
    return j


def delp(j: Any, p: Tuple) -> Any:
    j = copy.deepcopy(j)
    del getp(j, p[:-1])[p[-1]]
    return j


def kind_of(x: Any) -> str:
    if x is None:
        return "null"
    if isinstance(x, bool):
        return "bool"
    if isinstance(x, (int, float)):
        return "number"
    if isinstance(x, str):
        return "string"
    if isinstance(x, list):
        return "list"
    return "dict"


def replacements(cur: Any) -> List[Any]:
    """type changes of one field: to null, number, string, list, dict, bool (several values per kind)"""
    k = kind_of(cur)
    out: List[Any] = []
    if k != "null":
        out.append(None)
    if k != "number":
        out += [3, 2.5]
    if k != "string":
        out += ["abc", ""]
        if k == "number":
            out.append("3")  # float("3") would read it
        if k == "list" and cur and all(isinstance(s, str) and len(s) == 1 for s in cur):
            out.append("".join(cur))  # iterating the string would give the same names
    out += [x for x in ([], [1]) if not (k == "list" and cur == x)]
    out += [x for x in ({}, {"k": 1}) if not (k == "dict" and cur == x)]
    if k != "bool":
        out += [True, False]
    return out


def faults(j: Any):
    """every single-field deletion and type change at every depth: (op, path, replacement), faulted value"""
    for p in paths(j):
        if p:
            yield ("del", list(p), None), delp(j, p)
        for r in replacements(getp(j, p)):
            yield ("set", list(p), r), setp(j, p, r)


# ------------------------------------------------------------------------------------------------
# seeds


def seed_machine(rng: random.Random) -> dict:
    ni, no = rng.randint(1, 3), rng.randint(1, 2)
    single = rng.random() < 0.5
    ins = (["i", "j", "k"] if single else ["i1", "in_2", "i3"])[:ni]
    outs = (["o", "p"] if single else ["o1", "out_2"])[:no]
    point = {v: rng.randint(-2, 2) for v in ins + outs}

    def num(x):
        # JSON has one number kind: write some as int, some as float
        return int(x) if float(x).is_integer() and rng.random() < 0.4 else float(x)

    def clause(vs):
        k = rng.randint(1, min(3, len(vs)))
        chosen = rng.sample(vs, k)
        cs = {v: rng.choice([-3, -2, -1, 1, 2, 3, 0.5, -1.5, 2.25]) for v in chosen}
        spare = [v for v in vs if v not in cs]
        if spare and rng.random() < 0.25:
            # a zero coefficient is valid (the constructor drops it); every clause keeps a non-zero one: variable-free
            # terms are outside this part of C14 (on the pinned tree `0 <= 0` as only assumption with no guarantees makes
            # the constructor's simplify fail with an AssertionError in reduce_polytope — reported, not generated)
            cs[rng.choice(spare)] = 0
        val = sum(c * point[v] for v, c in cs.items())
        d = {"constant": num(val + rng.choice([0, 1, 2, 0.5])), "coefficients": {v: num(c) for v, c in cs.items()}}
        if rng.random() < 0.5:
            d = {"coefficients": d["coefficients"], "constant": d["constant"]}
        return d

    d = {"input_vars": ins, "output_vars": outs,
         "assumptions": [clause(ins) for _ in range(rng.randint(0, 2))],
         "guarantees": [clause(ins + outs) for _ in range(rng.randint(2, 4))]}
    if rng.random() < 0.5:
        d = {k: d[k] for k in ("assumptions", "guarantees", "input_vars", "output_vars")}
    return d


def machine_to_strings(m: dict, rng: random.Random) -> dict:
    def s(cl):
        parts = []
        for v, c in cl["coefficients"].items():
            if c == 0:
                continue
            c = float(c)
            mag = abs(c)
            txt = ("" if mag == 1 else (repr(int(mag)) if mag.is_integer() else repr(mag)) + rng.choice([" ", "*", ""])) + v
            parts.append(("-" if c < 0 else ("+" if parts else "")) + (" " if parts else "") + txt)
        lhs = " ".join(parts) if parts else "0 " + next(iter(cl["coefficients"]), "i")
        k = float(cl["constant"])
        return f"{lhs} <= {repr(int(k)) if k.is_integer() else repr(k)}"

    d = {"input_vars": list(m["input_vars"]), "output_vars": list(m["output_vars"]),
         "assumptions": [s(c) for c in m["assumptions"]], "guarantees": [s(c) for c in m["guarantees"]]}
    v = m["output_vars"][0]
    r = rng.random()
    if r < 0.25:
        d["guarantees"].append(f"|{v}| <= 100")
    elif r < 0.4:
        d["guarantees"].append(f"-50 <= {v} <= 50")
    elif r < 0.5:
        d["guarantees"].append(f"(1/2){v} <= 100")
    return d


def seed_compound(rng: random.Random) -> dict:
    single = rng.random() < 0.5
    i, o = ("i", "o") if single else ("i1", "o1")
    cuts = sorted(rng.sample(range(-4, 5), 2))
    a = [[f"{i} <= {cuts[0]}"], [f"{i} >= {cuts[0] + 1}", f"{i} <= {cuts[1] + 1}"]] if rng.random() < 0.7 else [[f"{i} <= {cuts[0]}"]]
    g = [[f"{o} - {i} <= {rng.randint(0, 3)}"], [f"{o} <= {rng.randint(0, 5)}", f"{o} >= -{rng.randint(1, 5)}"]][: rng.randint(1, 2)]
    return {"input_vars": [i], "output_vars": [o], "assumptions": a, "guarantees": g}


ADVERSARIAL = [
    "(1/0)x <= 1", "(1/(2-2)) x <= 1", "(0/0)|x| <= 1", "x <= (1/0)", "(1/0)(x+y) <= 1", "(1/0) <= x", "(1/(0))x <= 1",
    "(1/0.0)x <= 1", "(1/0e0)x <= 1", "(1/(1-1))|x| <= 2", "(2/(3*0))x <= 1", "x + (4/(2*2-4)) y <= 1", "(1/0)x = 1",
    "(1/0)x >= 1", "(1/(0.5*2-1))x + y <= 3", "2 x + (3/(1-1)) <= 4",
    # controls: well-defined constant expressions
    "(1/2)x <= 1", "(3/4)x + (1/(2-1)) y <= 1", "(2*3)|x| <= 6",
]


def vars_of(s: str) -> List[str]:
    import re

    return sorted(set(re.findall(r"[A-Za-z][A-Za-z0-9_]*", s.replace("e0", ""))) - {"e", "E"})


# ------------------------------------------------------------------------------------------------
# wire


def to_wire(x: Any) -> Any:
    if x is None or isinstance(x, (bool, str)):
        return x
    if isinstance(x, (int, float)):
        return {"$num": C.qs(x)}
    if isinstance(x, list):
        return [to_wire(v) for v in x]
    return {"$obj": [[k, to_wire(v)] for k, v in x.items()]}


def str_leaves(x: Any, acc: Optional[set] = None) -> set:
    acc = set() if acc is None else acc
    if isinstance(x, str):
        acc.add(x)
    elif isinstance(x, list):
        for v in x:
            str_leaves(v, acc)
    elif isinstance(x, dict):
        for k, v in x.items():
            acc.add(k)
            str_leaves(v, acc)
    return acc


# ------------------------------------------------------------------------------------------------
# implementation side (worker processes)

_GRAMMAR: Dict[str, Any] = {}


def term_wire(t) -> dict:
    return {"c": {str(k): float(v) for k, v in t.variables.items()}, "k": float(t.constant)}


def contract_wire(c) -> dict:
    from pacti.contracts import PolyhedralIoContractCompound

    if isinstance(c, PolyhedralIoContractCompound):
        return {"kind": "compound", "ins": [v.name for v in c.inputvars], "outs": [v.name for v in c.outputvars],
                "a": [[term_wire(t) for t in tl.terms] for tl in c.a.nested_termlist],
                "g": [[term_wire(t) for t in tl.terms] for tl in c.g.nested_termlist]}
    return {"kind": "simple", "ins": [v.name for v in c.inputvars], "outs": [v.name for v in c.outputvars],
            "a": [term_wire(t) for t in c.a.terms], "g": [term_wire(t) for t in c.g.terms]}


def raised_at(e: BaseException) -> str:
    """innermost frame inside the pacti tree: `module.function`"""
    src = os.path.realpath(C.PACTI_SRC)
    best = "?"
    for fr in traceback.extract_tb(e.__traceback__):
        f = os.path.realpath(fr.filename)
        if f.startswith(src + os.sep):
            best = os.path.splitext(os.path.basename(f))[0] + "." + fr.name
    return best


def outcome(f: Callable[[], Any], conv: Callable[[Any], Any]) -> dict:
    try:
        with contextlib.redirect_stdout(io.StringIO()):  # validate_contract_dict prints the offending value
            r = f()
        return {"ok": conv(r)}
    except BaseException as e:  # noqa
        return {"err": C.classify_exc(e), "at": raised_at(e), "msg": str(e)[:160]}


def grammar_answer(s: str) -> dict:
    """what `expression.parse_string` + the conversion to terms answer for `s`, before any handler of
    polyhedral_termlist_from_string for arithmetic faults: {"ok": [terms]} | {"err": kind}"""
    if s in _GRAMMAR:
        return _GRAMMAR[s]
    import pyparsing as pp
    from pacti.terms.polyhedra import serializer

    try:
        serializer.expression.parse_string(s, parse_all=True)
        zero = False
    except ZeroDivisionError:
        zero = True
    except BaseException:  # noqa
        zero = False
    if zero:
        r: dict = {"err": "py:ZeroDivisionError"}
    else:
        try:
            ts = serializer.polyhedral_termlist_from_string(s)
            r = {"ok": [{"c": [[str(k), C.qs(v)] for k, v in t.variables.items()], "k": C.qs(t.constant)} for t in ts]}
        except BaseException as e:  # noqa
            r = {"err": C.classify_exc(e)}
    _GRAMMAR[s] = r
    return r


def env_of(value: Any) -> dict:
    leaves = sorted(str_leaves(value))
    fl = []
    for s in leaves:
        try:
            x = float(s)
            if x == x and abs(x) != float("inf"):
                fl.append([s, C.qs(x)])
        except ValueError:
            pass
    return {"grammar": [[s, grammar_answer(s)] for s in leaves], "ctor": None, "floats": fl}


# ---- the judge's own reading of a dictionary (independent of pacti's readers and of the model) ----


def is_num(x: Any) -> bool:
    return isinstance(x, (int, float)) and not isinstance(x, bool)


def is_strlist(x: Any) -> bool:
    return isinstance(x, list) and all(isinstance(s, str) for s in x)


def is_clause(x: Any) -> bool:
    return (isinstance(x, dict) and "constant" in x and "coefficients" in x and is_num(x["constant"])
            and isinstance(x["coefficients"], dict)
            and all(isinstance(k, str) and is_num(v) for k, v in x["coefficients"].items()))


def well_kinded(d: Any, rep: str) -> bool:
    if not isinstance(d, dict) or any(kw not in d for kw in KW):
        return False
    if not is_strlist(d["input_vars"]) or not is_strlist(d["output_vars"]):
        return False
    for kw in ("assumptions", "guarantees"):
        v = d[kw]
        if not isinstance(v, list):
            return False
        if rep == "machine" and not all(is_clause(x) for x in v):
            return False
        if rep == "strings" and not is_strlist(v):
            return False
        if rep == "compound" and not all(is_strlist(x) for x in v):
            return False
    return True


def entry_rep(e: Any) -> Optional[str]:
    """representation of a well-kinded file entry, None if the entry is not well-kinded"""
    if not isinstance(e, dict) or any(k not in e for k in ("type", "name", "data")):
        return None
    if not isinstance(e["name"], str) or not isinstance(e["type"], str):
        return None
    rep = {T_MACHINE: "machine", T_STRINGS: "strings", T_COMPOUND: "compound"}.get(e["type"])
    if rep is None or not well_kinded(e["data"], rep):
        return None
    return rep


def denoted(d: dict, rep: str, simplify: bool):
    """the contract a well-kinded dictionary denotes, built with the constructors directly"""
    from pacti.contracts import PolyhedralIoContract, PolyhedralIoContractCompound
    from pacti.contracts.polyhedral_iocontract import NestedPolyhedra
    from pacti.iocontract import Var
    from pacti.terms.polyhedra import PolyhedralTerm, PolyhedralTermList, serializer

    ins = [Var(x) for x in d["input_vars"]]
    outs = [Var(x) for x in d["output_vars"]]
    if rep == "machine":
        def tl(v):
            return PolyhedralTermList([PolyhedralTerm({Var(k): float(c) for k, c in x["coefficients"].items()}, float(x["constant"])) for x in v])
        return PolyhedralIoContract(assumptions=tl(d["assumptions"]), guarantees=tl(d["guarantees"]), input_vars=ins, output_vars=outs,
                                    simplify=simplify)
    if rep == "strings":
        def tls(v):
            return PolyhedralTermList([t for s in v for t in serializer.polyhedral_termlist_from_string(s)])
        return PolyhedralIoContract(assumptions=tls(d["assumptions"]), guarantees=tls(d["guarantees"]), input_vars=ins,
                                    output_vars=outs, simplify=simplify)

    def nest(v):
        return [PolyhedralTermList([t for s in l for t in serializer.polyhedral_termlist_from_string(s)]) for l in v]
    a, g = nest(d["assumptions"]), nest(d["guarantees"])
    return PolyhedralIoContractCompound(input_vars=ins, output_vars=outs, assumptions=NestedPolyhedra(a, force_empty_intersection=True),
                                        guarantees=NestedPolyhedra(g, force_empty_intersection=False))


def call_site(case: dict, value: Any) -> dict:
    """one call of the implementation on `value` (the very object: the caller checks it afterwards)"""
    from pacti.contracts import PolyhedralIoContract
    from pacti.terms.polyhedra import serializer
    from pacti.utils.fileio import read_contracts_from_file

    site = case["site"]
    if site == "val+from_dict":
        def f():
            serializer.validate_contract_dict(value, "n", True)
            return PolyhedralIoContract.from_dict(value, simplify=False)
        return outcome(f, contract_wire)
    if site == "val+from_strings":
        def f():
            serializer.validate_contract_dict(value, "n", False)
            return PolyhedralIoContract.from_strings(**value, simplify=False)
        return outcome(f, contract_wire)
    if site == "from_dict":
        return outcome(lambda: PolyhedralIoContract.from_dict(value, simplify=False), contract_wire)
    if site == "file":
        with tempfile.TemporaryDirectory() as td:
            fn = os.path.join(td, "contracts.json")
            with open(fn, "w") as fh:
                json.dump(value, fh)
            before = open(fn).read()
            r = outcome(lambda: read_contracts_from_file(fn), lambda cn: [dict(contract_wire(c), name=n) for c, n in zip(*cn)])
            if open(fn).read() != before:
                r["file_changed"] = True
            r2 = outcome(lambda: read_contracts_from_file(fn), lambda cn: [dict(contract_wire(c), name=n) for c, n in zip(*cn)])
            if strip(r2) != strip(r):
                r["second_differs"] = r2
        return r
    raise AssertionError(site)


def strip(o: dict) -> dict:
    return {k: v for k, v in o.items() if k in ("ok", "err")}


def run_dict(case: dict) -> dict:
    value = case["value"]
    fresh = copy.deepcopy(value)
    snapshot = copy.deepcopy(value)
    first = call_site(case, value)
    res = dict(first)
    res["mutated"] = value != snapshot or json.dumps(value, sort_keys=False) != json.dumps(snapshot, sort_keys=False)
    if case["site"] != "file":  # (the file site re-reads the same file inside call_site)
        # an error (or a result) leaves the operand usable: the second call on the same object = a call on a fresh copy
        second = call_site(case, value)
        ref = call_site(case, fresh)
        if strip(second) != strip(ref) or strip(second) != strip(first):
            res["second_differs"] = {"second": strip(second), "fresh": strip(ref)}
    # the judge's reference
    site = case["site"]
    if site == "file":
        wk = isinstance(value, list) and all(entry_rep(e) is not None for e in value)
        res["well_kinded"] = wk
        if wk:
            res["expected"] = outcome(lambda: [(denoted(e["data"], entry_rep(e), True), e["name"]) for e in value],
                                      lambda l: [dict(contract_wire(c), name=n) for c, n in l])
    else:
        rep = "strings" if site == "val+from_strings" else "machine"
        wk = well_kinded(value, rep)
        res["well_kinded"] = wk
        if wk:
            res["expected"] = outcome(lambda: denoted(value, rep, False), contract_wire)
    res["env"] = env_of(value)
    return res


def run_string(case: dict) -> dict:
    from pacti.contracts import PolyhedralIoContract

    s = case["s"]
    res = outcome(lambda: PolyhedralIoContract.from_strings(assumptions=[], guarantees=[s], input_vars=[], output_vars=vars_of(s),
                                                            simplify=False), contract_wire)
    res["env"] = env_of([s])
    return res


def render(e: Any) -> str:
    """constant expression tree -> text; a tree is a number or [first, [op, e], …] (one precedence level)"""
    if not isinstance(e, list):
        return repr(int(e)) if float(e).is_integer() else repr(float(e))
    level_mul = any(op in "*/" for op, _ in e[1:])

    def atom(x):
        if not isinstance(x, list):
            return render(x)
        sub_mul = any(op in "*/" for op, _ in x[1:])
        # a multiplicative chain inside an additive one needs no parentheses; everything else gets them
        if sub_mul and not level_mul:
            return render(x)
        return "(" + render(x) + ")"
    return atom(e[0]) + "".join(f" {op} {atom(x)}" for op, x in e[1:])


def run_arith(case: dict) -> dict:
    from pacti.contracts import PolyhedralIoContract

    s = f"({render(case['expr'])}) x <= 1"

    def f():
        c = PolyhedralIoContract.from_strings(assumptions=[], guarantees=[s], input_vars=[], output_vars=["x"], simplify=False)
        assert len(c.g.terms) == 1
        t = c.g.terms[0]
        return float(sum(v for k, v in t.variables.items() if k.name == "x"))
    res = outcome(f, C.qs)
    res["s"] = s
    return res


# ------------------------------------------------------------------------------------------------
# comparison helpers


def q_term(t: dict) -> Tuple:
    cs = t["c"].items() if isinstance(t["c"], dict) else [(a, b) for a, b in t["c"]]
    return (tuple(sorted((str(k), Fraction(v) if isinstance(v, str) else Fraction(v)) for k, v in cs)), Fraction(t["k"]) if isinstance(t["k"], str) else Fraction(t["k"]))


def same_terms(a: List[dict], b: List[dict]) -> bool:
    return [q_term(t) for t in a] == [q_term(t) for t in b]


def model_args_vs_contract(m: dict, c: dict, simplify: bool) -> Optional[str]:
    """the constructor arguments the model computed against a contract the implementation returned"""
    if m.get("kind") != c.get("kind"):
        return f"kind {m.get('kind')} vs {c.get('kind')}"
    def names_eq(a, b):
        # the model has no `repr` of floats, lists and dicts: "<float>", "<list>", "<dict>" stand for any name
        return len(a) == len(b) and all(x == y or x in ("<float>", "<list>", "<dict>") for x, y in zip(a, b))
    if not names_eq(m["ins"], c["ins"]) or not names_eq(m["outs"], c["outs"]):
        return f"interface model {m['ins']}/{m['outs']} vs impl {c['ins']}/{c['outs']}"
    if m["kind"] == "simple":
        if not same_terms(m["a"], c["a"]):
            return "assumptions differ"
        if not simplify and not same_terms(m["g"], c["g"]):
            return "guarantees differ"
    else:
        if len(m["a"]) != len(c["a"]) or any(not same_terms(x, y) for x, y in zip(m["a"], c["a"])):
            return "assumptions differ"
        if len(m["g"]) != len(c["g"]) or any(not same_terms(x, y) for x, y in zip(m["g"], c["g"])):
            return "guarantees differ"
    return None


def construct_from_args(m: dict, simplify: bool) -> dict:
    """call the real constructor on the arguments the model computed"""
    from pacti.contracts import PolyhedralIoContract, PolyhedralIoContractCompound
    from pacti.contracts.polyhedral_iocontract import NestedPolyhedra
    from pacti.iocontract import Var
    from pacti.terms.polyhedra import PolyhedralTerm, PolyhedralTermList

    def tl(l):
        return PolyhedralTermList([PolyhedralTerm({Var(k): float(Fraction(v)) for k, v in t["c"]}, float(Fraction(t["k"]))) for t in l])
    ins, outs = [Var(x) for x in m["ins"]], [Var(x) for x in m["outs"]]
    if m["kind"] == "simple":
        return outcome(lambda: PolyhedralIoContract(assumptions=tl(m["a"]), guarantees=tl(m["g"]), input_vars=ins, output_vars=outs,
                                                    simplify=simplify), contract_wire)
    return outcome(lambda: PolyhedralIoContractCompound(input_vars=ins, output_vars=outs,
                                                        assumptions=NestedPolyhedra([tl(x) for x in m["a"]], force_empty_intersection=True),
                                                        guarantees=NestedPolyhedra([tl(x) for x in m["g"]], force_empty_intersection=False)),
                   contract_wire)


def compare_reached(m: dict, impl_out: dict, simplify: bool) -> Optional[str]:
    """model: the reader reached the constructor with arguments m; impl_out: what the implementation returned"""
    if "ok" in impl_out:
        return model_args_vs_contract(m, impl_out["ok"], simplify)
    exp = construct_from_args(m, simplify)
    if exp.get("err") != impl_out.get("err"):
        return f"model reaches the constructor (which answers {strip(exp)}) but impl raised {impl_out.get('err')} at {impl_out.get('at')}"
    return None


# ------------------------------------------------------------------------------------------------


class C14(Check):
    pid = "C14"
    title = "Failures are reported only through the documented exceptions (dictionary / file-entry part)"
    level_text = ('Lean theorems documented_errors_dict / _entry / _validate / _from_dict (only ContractFormatError, ValueError, '
                  'IncompatibleArgsError, syntax, convexity errors, for ALL JSON values), no_misread / no_misread_file / no_misread_from_dict / '
                  'valid_entry_read / wrong_kind_rejected (an accepted entry has all fields of the right kind and is read as exactly the contract they '
                  'denote; anything else is rejected), repairs_necessary / documented_errors_iff (the property holds of a source configuration iff all seven '
                  'repairs are present), arith_errors / documented_errors_arith (constant folding of the grammar), proved for the '
                  'executable model of _check_clause, validate_contract_dict, from_dict, from_strings and read_contracts_from_file with Python '
                  'semantics of in / [] / isinstance / float() / iteration / .items() / ** on JSON values, under the repaired configuration; '
                  'the configuration of the current source is read off the AST by the translator (raise vs bare expression, presence of each '
                  'test); decided counterexamples for the pinned configuration; tied to the code by an exhaustive single-fault correspondence '
                  '(every deletion and type change at every depth, three call sites) and a model-independent judge.')
    lean_modules = ["Pacti.Props.C14"]
    theorems = ["Pacti.C14.documented_errors_dict", "Pacti.C14.documented_errors_entry", "Pacti.C14.documented_errors_validate",
                "Pacti.C14.validate_accepts_iff", "Pacti.C14.from_dict_spec", "Pacti.C14.documented_errors_from_dict",
                "Pacti.C14.no_misread", "Pacti.C14.valid_entry_read", "Pacti.C14.wrong_kind_rejected", "Pacti.C14.no_misread_file",
                "Pacti.C14.no_misread_from_dict", "Pacti.C14.arith_errors", "Pacti.C14.documented_errors_arith",
                "Pacti.C14.documented_errors_dict_counterexample_pinned_missing_constant",
                "Pacti.C14.documented_errors_dict_counterexample_pinned_missing_constant_all",
                "Pacti.C14.documented_errors_dict_counterexample_pinned_coefficients_3",
                "Pacti.C14.documented_errors_dict_counterexample_pinned_coefficients_3_all",
                "Pacti.C14.documented_errors_dict_counterexample_pinned_clause_string",
                "Pacti.C14.documented_errors_dict_counterexample_pinned_clause_string_all",
                "Pacti.C14.documented_errors_dict_counterexample_pinned_constant_null",
                "Pacti.C14.documented_errors_dict_counterexample_pinned_constant_null_all",
                "Pacti.C14.documented_errors_dict_counterexample_pinned_no_type",
                "Pacti.C14.documented_errors_dict_counterexample_pinned_no_type_all",
                "Pacti.C14.documented_errors_dict_counterexample_pinned_entry_not_dict",
                "Pacti.C14.documented_errors_dict_counterexample_pinned_entry_not_dict_all",
                "Pacti.C14.documented_errors_dict_counterexample_pinned_not_list",
                "Pacti.C14.documented_errors_dict_counterexample_pinned_not_list_all",
                "Pacti.C14.documented_errors_dict_counterexample_pinned_no_data",
                "Pacti.C14.documented_errors_dict_counterexample_pinned_compound",
                "Pacti.C14.documented_errors_dict_counterexample_pinned_zero_division",
                "Pacti.C14.no_misread_counterexample_pinned", "Pacti.C14.Ez_documented", "Pacti.C14.repairs_necessary",
                "Pacti.C14.documented_errors_iff"]
    quick_n = 10      # seed dictionaries per representation family (machine + string + compound: 30 seed dictionaries; ≈ 400 faults per machine dictionary, × call sites)
    thorough_n = 60
    judge_sample = 10 ** 9  # the judge is cheap: every case is judged
    trusted_base = [
        "Lean 4.33 kernel; axioms ⊆ {propext, Classical.choice, Quot.sound}",
        "hand-written model Pacti/Model/Dict.lean (Python semantics on JSON values; _check_clause, validate_contract_dict, from_dict, "
        "from_strings, read_contracts_from_file) tied to the code by this exhaustive single-fault correspondence",
        "tools/py2lean_dict.py: the repair flags (Gen.checkClauseRaises … Gen.catchZeroDiv) are read off the AST by template match; "
        "an unrecognised form is a translator error",
        "the theorems take the term/contract constructors and the grammar as a parameter assumed to raise only documented errors "
        "(Ext.Documented; C06, C09, C17) — the grammar may let ZeroDivisionError through, which is handled here",
        "harness: fault enumerator, judge's own decoder (well_kinded / denoted), exception classification by class",
    ]
    assumptions = ["JSON values: numbers are finite, dictionary keys are strings and unique (what json.load delivers)",
                   "the full-strength theorems are about the repaired configuration; on the pinned configuration their negations are decided "
                   "(…_counterexample_pinned) and the check reports the failing dictionary"]
    min_branches = {"site:file": 2000, "site:val+from_dict": 1000, "site:val+from_strings": 500, "site:from_dict": 1000,
                    "rep:compound": 500, "fault:del": 300, "fault:set:null": 300, "fault:set:bool": 300, "fault:set:number": 300,
                    "fault:set:string": 300, "fault:set:list": 300, "fault:set:dict": 300, "well-kinded": 200, "string:zero-division": 10,
                    "arith:zero-division": 20, "arith:value": 50, "file:two-entries": 20}

    # ---- generation ---------------------------------------------------------------------------------
    def generate(self, rng: random.Random, n: int, tier: str) -> List[dict]:
        out: List[dict] = []

        def add(site, rep, seed_id, seed_value, label=None):
            out.append({"kind": "dict", "site": site, "rep": rep, "seed": seed_id, "fault": ["none", [], None], "value": copy.deepcopy(seed_value)})
            for (op, p, r), v in faults(seed_value):
                out.append({"kind": "dict", "site": site, "rep": rep, "seed": seed_id, "fault": [op, p, r], "value": v})

        for k in range(n):
            m = seed_machine(rng)
            s = machine_to_strings(m, rng)
            c = seed_compound(rng)
            nm = rng.choice(["c", "contract_1", ""])
            add("val+from_dict", "machine", k, m)
            add("from_dict", "machine", k, m)
            add("val+from_strings", "strings", k, s)
            add("file", "machine", k, [{"type": T_MACHINE, "name": nm, "data": m}])
            add("file", "strings", k, [{"name": nm, "type": T_STRINGS, "data": s}])
            add("file", "compound", k, [{"type": T_COMPOUND, "data": c, "name": nm}])
            # the checks of ALL entries precede the loading of the first: a fault in the second of two entries
            good = {"type": T_STRINGS, "name": "first", "data": s}
            second = {"type": T_MACHINE, "name": "second", "data": m}
            fl = list(faults(second))
            for (op, p, r), v in rng.sample(fl, min(12, len(fl))):
                out.append({"kind": "dict", "site": "file", "rep": "machine", "seed": k, "fault": [op, [1] + p, r], "value": [good, v], "two": True})
        # adversarial strings: directly, inside a string dictionary, inside files
        for s in ADVERSARIAL:
            out.append({"kind": "string", "s": s})
            vs = vars_of(s)
            d = {"input_vars": [], "output_vars": vs, "assumptions": [], "guarantees": [s]}
            out.append({"kind": "dict", "site": "val+from_strings", "rep": "strings", "seed": -1, "fault": ["string", [], s], "value": d})
            out.append({"kind": "dict", "site": "file", "rep": "strings", "seed": -1, "fault": ["string", [], s],
                        "value": [{"type": T_STRINGS, "name": "adv", "data": d}]})
            out.append({"kind": "dict", "site": "file", "rep": "compound", "seed": -1, "fault": ["string", [], s],
                        "value": [{"type": T_COMPOUND, "name": "adv", "data": dict(d, assumptions=[], guarantees=[[s]])}]})
        # constant expressions
        for _ in range(160 if tier == "quick" else 4000):
            out.append({"kind": "arith", "expr": self.gen_expr(rng)})
        rng.shuffle(out)  # load balance of the worker pool only: the enumeration above is exhaustive, its order is irrelevant
        # the exception class of the calls of the other checks' own streams (adversarial elimination shapes, compositions,
        # quotients, refinement, simplification, optimisation): only the class of what escapes is judged here
        for pid, cnt in (("C04", 500), ("C01", 60), ("C02", 40), ("C03", 150), ("C07", 150), ("C12", 150)):
            chk = _delegate(pid)
            for c in chk.generate(random.Random(f"C14-{pid}-{rng.random()}"), cnt if tier == "quick" else cnt * 10, tier):
                out.append({"kind": "op", "prop": pid, "case": c})
        # quotients that FAIL after part of the work succeeded (one dividend guarantee is refined through a divisor guarantee,
        # another mentions a shared input that nothing eliminates), with and without simplification: the error must leave the
        # operands unchanged and usable
        for _ in range(60 if tier == "quick" else 600):
            kk = lambda: float(rng.choice([1, 2, 3]))  # noqa: E731
            sg = rng.choice([1.0, -1.0])
            top = {"ins": ["i", "j"], "outs": ["o"], "a": [] if rng.random() < 0.6 else [{"c": {"i": sg}, "k": float(rng.randint(1, 5))}],
                   "g": [{"c": {"o": sg * kk(), "i": -sg * kk()}, "k": float(rng.randint(0, 3))}, {"c": {"o": kk(), "j": rng.choice([-1.0, 1.0]) * kk()}, "k": float(rng.randint(1, 5))}]}
            oth = {"ins": ["i", "j"], "outs": ["x"], "a": [], "g": [{"c": {"x": sg * kk(), "i": -sg * kk()}, "k": float(rng.randint(0, 3))}]}
            if rng.random() < 0.3:
                top["g"].reverse()
            out.append({"kind": "op", "prop": "C02", "case": {"op": "quotient", "c1": top, "c2": oth, "addl": [], "simplify": rng.random() < 0.4,
                                                               "order": [1, 2, 3, 4, 5] if rng.random() < 0.7 else rng.sample([1, 2, 3, 4, 5], rng.randint(2, 5)),
                                                               "tag": "partial-failure"}})
        return out

    NUMS = [0, 1, 2, 3, 4, 10, 0.5, 0.25, 1.5]

    def gen_flat(self, rng, nodiv):
        """parenthesised operand: numbers only, one or two precedence levels, exact zeros planted"""
        r = rng.random()
        if r < 0.3:
            a = rng.choice(self.NUMS)
            return [a, ["-", a]]  # e - e
        if r < 0.45:
            a, b = rng.choice([1, 2, 3, 0.5]), rng.choice([1, 2, 4])
            return [[a, ["*", b]], ["-", a * b]]  # a*b - (a·b)
        k = rng.choice([2, 2, 3])
        if rng.random() < 0.5:
            return [rng.choice(self.NUMS)] + [[rng.choice("+-"), rng.choice(self.NUMS)] for _ in range(k - 1)]
        ops = "*" if nodiv else "*/"
        return [rng.choice(self.NUMS)] + [[rng.choice(ops), rng.choice(self.NUMS[1:] if nodiv else self.NUMS)] for _ in range(k - 1)]

    def gen_mult(self, rng, force=False):
        k = rng.choice([2, 3]) if force else rng.choice([1, 1, 2, 3])
        nodiv = False
        first = rng.choice(self.NUMS) if rng.random() < 0.6 else self.gen_flat(rng, False)
        rest = []
        for _ in range(k - 1):
            op = rng.choice("*/")
            # a divisor contains no division (its float value is then exact, so "is it zero" is the same question in both worlds)
            x = rng.choice(self.NUMS) if rng.random() < 0.5 else self.gen_flat(rng, op == "/")
            rest.append([op, x])
        return [first] + rest if rest else first

    def gen_expr(self, rng):
        # the top level must contain a `*` or `/` outside parentheses, else the grammar reads "(…)" as parenthesised terms
        first = self.gen_mult(rng, force=True)
        rest = [[rng.choice("+-"), self.gen_mult(rng)] for _ in range(rng.choice([0, 0, 1, 2]))]
        return [first] + rest if rest else first

    # ---- implementation ---------------------------------------------------------------------------------
    def run_impl(self, case: dict) -> dict:
        k = case["kind"]
        if k == "op":
            try:
                r = _delegate(case["prop"]).run_impl(case["case"])
            except Exception as e:  # noqa
                r = {"err": C.classify_exc(e), "msg": str(e)[:200]}
            if "err" in r:
                out = {"err": r["err"], "msg": r.get("msg", ""), "at": case["prop"] + " stream"}
                if r.get("damage"):
                    out["damage"] = r["damage"]
                return out
            return {"ok": True}
        if k == "dict":
            return run_dict(case)
        if k == "string":
            return run_string(case)
        return run_arith(case)

    # ---- model ---------------------------------------------------------------------------------------------
    def model_request(self, case: dict, impl: dict) -> Optional[dict]:
        k = case["kind"]
        if "harness_trace" in impl or k == "op":
            return None
        if k == "arith":
            def w(e):
                return C.qs(e) if not isinstance(e, list) else [w(e[0])] + [[op, w(x)] for op, x in e[1:]]
            e = case["expr"]
            return {"op": "arith", "expr": w(e) if isinstance(e, list) else [w(e)]}
        if k == "string":
            return {"op": "dict_from_strings", "env": impl["env"], "a": [], "g": [case["s"]], "ins": [], "outs": vars_of(case["s"]), "simplify": False}
        site = case["site"]
        v = to_wire(case["value"])
        if site == "file":
            return {"op": "dict_read_file", "env": impl["env"], "file": v}
        op = {"val+from_dict": "dict_validate_from_dict", "val+from_strings": "dict_validate_from_strings", "from_dict": "dict_from_dict"}[site]
        return {"op": op, "env": impl["env"], "dict": v, "simplify": False}

    def compare(self, case: dict, impl: dict, model: dict) -> Optional[str]:
        k = case["kind"]
        if k == "arith":
            if impl.get("err") == "SyntaxError":
                return None  # a quirk of the grammar (C09): "(…)" was read as parenthesised terms, not as a constant expression
            if "err" in impl or "err" in model:
                return None if impl.get("err") == model.get("err") else f"impl {strip(impl)} vs model {strip(model)} for {impl.get('s')}"
            a, b = Fraction(impl["ok"]), Fraction(model["ok"])
            return None if abs(a - b) <= Fraction(1, 10 ** 9) * max(1, abs(a), abs(b)) else f"value {float(a)} vs model {float(b)} for {impl.get('s')}"
        if "err" in model:
            return None if impl.get("err") == model["err"] else f"impl {strip(impl)} (at {impl.get('at')}) vs model {model['err']}"
        if k == "string":
            return compare_reached(model["ok"], impl, False)
        if case["site"] != "file":
            return compare_reached(model["ok"], impl, False)
        ms = model["ok"]
        if "ok" in impl:
            if len(ms) != len(impl["ok"]):
                return "number of contracts differs"
            for m, c in zip(ms, impl["ok"]):
                if to_wire(c.get("name")) != m.get("name"):
                    return f"name {c.get('name')!r} vs model {m.get('name')!r}"
                d = model_args_vs_contract(m, c, True)
                if d:
                    return d
            return None
        # the model reached every constructor: the implementation's error must be a constructor's own
        for m in ms:
            exp = construct_from_args(m, True)
            if "err" in exp:
                return None if exp["err"] == impl.get("err") else f"constructor answers {exp['err']}, impl raised {impl.get('err')} at {impl.get('at')}"
        return f"model accepts, impl raised {impl.get('err')} at {impl.get('at')}"

    # ---- judge (independent of the model) ---------------------------------------------------------------
    def judge(self, case: dict, impl: dict) -> Optional[dict]:
        k = case["kind"]
        where = case.get("site", k)
        if "harness_trace" in impl:
            return {"signature": "judge-crash", "what": "harness failed in run_impl: " + impl.get("msg", ""), "witness": impl["harness_trace"], "infra": True}
        if "err" in impl and impl["err"] not in C.DOCUMENTED:
            cls = impl["err"][3:] if impl["err"].startswith("py:") else impl["err"]
            return {"signature": f"undocumented-exception:{cls}@{impl.get('at', '?')}",
                    "what": f"{where}: {impl['err']} ({impl.get('msg', '')}) escaped from {impl.get('at')} for " + self.describe(case),
                    "witness": {"input": case.get("value", case.get("s", impl.get("s"))), "fault": case.get("fault")}}
        if impl.get("damage"):
            return {"signature": f"error-damages-operand@{impl.get('at', '?')}",
                    "what": f"{impl['err']} was raised and left an operand changed or unusable: {impl['damage'][:300]}; " + self.describe(case),
                    "witness": {"input": case.get("case")}}
        if k != "dict":
            return None
        if impl.get("mutated") or impl.get("file_changed"):
            return {"signature": f"operand-mutated@{where}", "what": "the dictionary passed in was modified by the call: " + self.describe(case),
                    "witness": {"input": case["value"]}}
        if impl.get("second_differs"):
            return {"signature": f"operand-unusable-after-call@{where}", "what": "a second call on the same operand behaves differently from a call on a fresh copy: "
                    + self.describe(case), "witness": {"input": case["value"], "calls": impl["second_differs"]}}
        if not impl.get("well_kinded"):
            if "ok" in impl:
                return {"signature": f"misread:wrong-kind-accepted@{where}",
                        "what": f"{where}: a dictionary with a missing field or a field of the wrong kind was accepted and read as something else: "
                                + self.describe(case), "witness": {"input": case["value"], "fault": case["fault"], "read_as": impl["ok"]}}
            return None
        exp = impl.get("expected", {})
        if "ok" in exp and "ok" in impl:
            if exp["ok"] != impl["ok"]:
                return {"signature": f"misread:fields-differ@{where}", "what": f"{where}: the contract returned is not the one the dictionary denotes: "
                        + self.describe(case), "witness": {"input": case["value"], "denotes": exp["ok"], "read_as": impl["ok"]}}
            return None
        if "ok" in exp and "err" in impl:
            return {"signature": f"valid-dictionary-rejected@{where}", "what": f"{where}: a well-kinded dictionary whose contract can be constructed was rejected "
                    f"with {impl['err']} ({impl.get('msg', '')}): " + self.describe(case), "witness": {"input": case["value"]}}
        if "err" in exp and "ok" in impl:
            return {"signature": f"misread:constructor-error-lost@{where}", "what": f"{where}: constructing the denoted contract fails with {exp['err']} "
                    "but the reader returned a contract: " + self.describe(case), "witness": {"input": case["value"], "read_as": impl["ok"]}}
        return None

    @staticmethod
    def describe(case: dict) -> str:
        if case["kind"] == "string":
            return f"from_strings(guarantees=[{case['s']!r}])"
        if case["kind"] == "op":
            return f"a case of the {case['prop']} stream: {json.dumps(case['case'])[:500]}"
        if case["kind"] == "arith":
            return "constant expression"
        op, p, r = case["fault"]
        f = {"none": "the unmodified seed", "del": f"deletion of {p}", "set": f"{p} := {r!r}", "string": f"constraint {r!r}"}[op]
        return f"{case['rep']} dictionary, {f}: {json.dumps(case['value'])[:400]}"

    # ---- bookkeeping -----------------------------------------------------------------------------------------
    def branch(self, case: dict, impl: dict, model: Optional[dict]) -> List[str]:
        k = case["kind"]
        if k == "op":
            return [f"op:{case['prop']}", f"op-outcome:{impl.get('err', 'ok')}"]
        out = [f"outcome:{impl.get('err', 'ok')}"]
        if k == "dict":
            out += [f"site:{case['site']}", f"rep:{case['rep']}"]
            op, p, r = case["fault"]
            out.append(f"fault:{op}" if op != "set" else f"fault:set:{kind_of(r)}")
            if impl.get("well_kinded"):
                out.append("well-kinded")
            if case.get("two"):
                out.append("file:two-entries")
            if op == "string" and "(1/0" in str(r):
                out.append("string:zero-division")
        elif k == "string":
            if impl.get("env", {}).get("grammar", [[None, {}]])[0][1].get("err") == "py:ZeroDivisionError":
                out.append("string:zero-division")
        else:
            out.append("arith:not-arithmetic" if impl.get("err") == "SyntaxError" else
                       "arith:zero-division" if (model or {}).get("err") in ("py:ZeroDivisionError", "ValueError") else "arith:value")
        if model and "cfg" in model:
            out.append("cfg:repaired" if model["cfg"].get("allRepaired") else "cfg:unrepaired")
        return out

    def nontrivial(self, case: dict, impl: dict) -> bool:
        return True


def _delegate(pid: str):
    import importlib

    return importlib.import_module("harness.props." + pid.lower()).CHECK


KINDS = {"dict": run_dict, "string": run_string, "arith": run_arith}

CHECK = C14()
