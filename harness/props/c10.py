"""C10: polyhedral contracts (1-3 inputs, 1-3 outputs, 0-4 assumptions, 1-6 guarantees, every constraint with >= 1
variable, magnitudes in [1e-4, 1e6]) through the machine dictionary, the string form and both file forms.
Streams: `exact` (integers and decimals with <= 4 significant digits), `float` (arbitrary floats, ties of the 4th digit,
scientific notation), both with exactly opposite pairs (negated / equal / unrelated constants, decoy partners,
duplicates) shuffled to every position; `near` (pairs only approximately opposite inside the isclose band: either reading
accepted); `tiny` (out of the property's range: coefficients ~ 0, constants ~ 0 -> `|LHS| = 0`; strings compared with the
model only); `malformed` (machine dictionaries with missing keywords / bad elements / bad interfaces: error kinds compared
with the model only).  Non-trivial = at least one constraint."""
from __future__ import annotations

import math
import os
import random
import tempfile
from fractions import Fraction
from typing import Dict, List, Optional, Tuple

from .. import common as C
from .. import gen as G
from .. import judge as J
from ..framework import Check

NAMES = ["x", "y", "z", "u", "v", "w", "x1", "x2", "x10", "y_1", "ab", "Zed", "e1", "E2"]
RTOL = Fraction(1, 10**9)


# ---- exact helpers (Python Fractions only; independent of the Lean model) ---------------------------------

def round4_frac(x: Fraction) -> Fraction:
    """x rounded half-even to 4 significant decimal digits"""
    if x == 0:
        return x
    s = -1 if x < 0 else 1
    a = abs(x)
    e = 0
    while a >= Fraction(10) ** (e + 1):
        e += 1
    while a < Fraction(10) ** e:
        e -= 1
    unit = Fraction(10) ** (e - 3)
    return s * round(a / unit) * unit  # Fraction.__round__ is half-even


def half_unit(x: Fraction) -> Fraction:
    a = abs(x)
    if a == 0:
        return Fraction(0)
    e = 0
    while a >= Fraction(10) ** (e + 1):
        e += 1
    while a < Fraction(10) ** e:
        e -= 1
    return 5 * Fraction(10) ** (e - 4)


def fr_term(t: dict) -> Tuple[Dict[str, Fraction], Fraction]:
    return ({v: C.q(c) for v, c in t["c"].items() if c != 0}, C.q(t["k"]))


def num_close(a: Fraction, b: Fraction, rtol: Fraction = RTOL) -> bool:
    return abs(a - b) <= rtol * max(abs(a), abs(b))


def term_matches(p, e, tol=None) -> bool:
    """p, e: (coeff dict, const) in Fractions.  tol(e_number) -> allowed absolute deviation (None: 1e-9 relative)"""
    if set(p[0]) != set(e[0]):
        return False
    pairs = [(p[0][v], e[0][v]) for v in p[0]] + [(p[1], e[1])]
    for a, b in pairs:
        if tol is None:
            if not num_close(a, b):
                return False
        elif abs(a - b) > tol(b):
            return False
    return True


def scaled(t):
    """a half-space up to positive scaling: divide by |first coefficient| (variables in name order)"""
    vs = sorted(t[0])
    s = abs(t[0][vs[0]])
    return ({v: c / s for v, c in t[0].items()}, t[1] / s)


def same_halfspaces(ps, es, tol=None) -> Optional[str]:
    """every parsed term is one of the expected ones and vice versa (sets); None = same"""
    def m(p, e):
        if term_matches(p, e, tol):
            return True
        return tol is None and bool(p[0]) and bool(e[0]) and term_matches(scaled(p), scaled(e))
    for p in ps:
        if not any(m(p, e) for e in es):
            return f"read-back term {show(p)} is none of the rounded originals {[show(e) for e in es]}"
    for e in es:
        if not any(m(p, e) for p in ps):
            return f"rounded original {show(e)} is missing from the read-back terms {[show(p) for p in ps]}"
    return None


def show(t) -> str:
    return " + ".join(f"{float(c)!r}*{v}" for v, c in sorted(t[0].items())) + f" <= {float(t[1])!r}"


def rounded_term(t: dict):
    c, k = fr_term(t)
    return ({v: round4_frac(x) for v, x in c.items()}, round4_frac(k))


def near_tol(b: Fraction) -> Fraction:
    """either reading: the number itself or an isclose-neighbour of it, rounded to 4 digits"""
    # |round4(l') - round4(l)| <= |l' - l| + two half units
    return (Fraction(1, 10**8) + Fraction(2, 10**5) * abs(b)) + half_unit(b) * Fraction(202, 100) + abs(b) * RTOL


def eq_terms_exact(l1: List[dict], l2: List[dict]) -> bool:
    """my own list equality: same length, same order, pacti's term equality on exact values"""
    return len(l1) == len(l2) and all(fr_term(a) == fr_term(b) for a, b in zip(l1, l2))


def eq_contract_exact(c1: dict, c2: dict) -> Optional[str]:
    if c1["ins"] != c2["ins"]:
        return f"inputs {c2['ins']} instead of {c1['ins']}"
    if c1["outs"] != c2["outs"]:
        return f"outputs {c2['outs']} instead of {c1['outs']}"
    if not eq_terms_exact(c1["a"], c2["a"]):
        return "assumptions differ"
    if not eq_terms_exact(c1["g"], c2["g"]):
        return "guarantees differ"
    return None


# ---- generator ------------------------------------------------------------------------------------------------

def gnum(rng: random.Random, cls: str) -> float:
    """a magnitude in [1e-4, 1e6]"""
    while True:
        if cls == "int":
            r = rng.random()
            x = float(rng.choice([1, 1, 2, 3, 5, 10, 100]) if r < 0.5 else (rng.randint(1, 9999) if r < 0.85 else rng.randint(10000, 10**6)))
        elif cls == "dec4":
            x = float(f"{rng.randint(1, 9999)}e{rng.randint(-7, 2)}")
        else:
            r = rng.random()
            if r < 0.5:
                x = 10 ** rng.uniform(-4, 6)
            elif r < 0.7:
                x = float(f"{rng.randint(1000, 9999)}5e{rng.randint(-8, 1)}")          # tie of the 4th digit (as a decimal)
            elif r < 0.8:
                x = rng.randint(1, 2**14) / 2.0 ** rng.randint(1, 12)                    # dyadic: exact ties possible
            elif r < 0.9:
                x = float(f"{rng.randint(9995, 9999)}{rng.randint(0, 9)}e{rng.randint(-8, 1)}")  # rounds up to the next decade
            else:
                x = float(f"{rng.randint(10000, 9999999)}e{rng.randint(-9, -1)}")
        if 1e-4 <= x <= 1e6:
            return x


def gsigned(rng, cls, ppos=0.5):
    x = gnum(rng, cls)
    return x if rng.random() < ppos else -x


def gcls(rng, stream):
    if stream == "exact":
        return rng.choice(["int", "int", "dec4"])
    return rng.choice(["int", "dec4", "float", "float", "float"])


def gcoeffs(rng, vs, stream) -> Dict[str, float]:
    k = rng.randint(1, min(3, len(vs)))
    out = {}
    for v in rng.sample(vs, k):
        r = rng.random()
        if r < 0.2:
            out[v] = rng.choice([1.0, -1.0])
        else:
            out[v] = gsigned(rng, gcls(rng, stream))
    return out


def glist(rng, vs: List[str], nplain: int, npairs: int, stream: str) -> List[dict]:
    ts: List[dict] = []
    for _ in range(nplain):
        ts.append({"c": gcoeffs(rng, vs, stream), "k": gsigned(rng, gcls(rng, stream), 0.9)})
    for _ in range(npairs):
        c = gcoeffs(rng, vs, stream)
        k = gsigned(rng, gcls(rng, stream), 0.85)
        neg = {v: -x for v, x in c.items()}
        kind = rng.choice(["neg", "same", "unrel", "neg", "same"])
        if stream == "near":
            d = lambda: 1.0 + rng.choice([-1, 1]) * rng.uniform(1e-7, 6e-6)  # noqa: E731  well inside rtol = 1e-5
            neg = {v: x * d() for v, x in neg.items()}
            kn = {"neg": -k * d(), "same": k * d(), "unrel": gsigned(rng, gcls(rng, stream), 0.9)}[kind]
            if rng.random() < 0.3:
                c = {v: (math.copysign(1.0, x) * d() if rng.random() < 0.5 else x) for v, x in c.items()}
                neg = {v: -x * d() for v, x in c.items()}
        else:
            kn = {"neg": -k, "same": k, "unrel": gsigned(rng, gcls(rng, stream), 0.9)}[kind]
        grp = [{"c": c, "k": k}, {"c": neg, "k": kn}]
        r = rng.random()
        if r < 0.15:      # decoy: an opposite partner that meets no rule, somewhere
            grp.append({"c": dict(neg), "k": gsigned(rng, gcls(rng, stream), 0.9)})
        elif r < 0.25:    # duplicate of the partner
            grp.append({"c": dict(neg), "k": kn})
        elif r < 0.32:    # out of the band: looks opposite to the eye, is not for isclose
            f = 1.0 + rng.choice([-1, 1]) * rng.uniform(3e-5, 1e-3)
            grp.append({"c": {v: x * f for v, x in neg.items()}, "k": kn})
        ts.extend(grp)
    m = rng.random()
    if m < 0.6:
        rng.shuffle(ts)          # partners at every position, either order, non-adjacent
    elif m < 0.8:
        ts.reverse()
    return ts


def gcontract(rng, stream: str) -> dict:
    pool = rng.sample(NAMES, rng.randint(2, 6))
    ni = rng.randint(1, min(3, len(pool) - 1))
    ins, outs = pool[:ni], pool[ni:ni + rng.randint(1, 3)]
    npa = rng.choice([0, 0, 1])
    a = glist(rng, ins, rng.randint(0 if npa else 0, 2), npa, stream)
    npg = rng.choice([0, 1, 1, 2])
    g = glist(rng, ins + outs, rng.randint(0 if npg else 1, 3), npg, stream)
    return {"stream": stream, "a": a, "g": g, "ins": ins, "outs": outs}


def gsubset(rng) -> dict:
    """an earlier term whose variables are a strict subset of a later term's, shared coefficients negated, constants equal or
    negated: NOT an opposite pair (must not be folded)"""
    c = gcontract(rng, "exact")
    vs = c["ins"] + c["outs"]
    if len(vs) >= 2:
        x, y = rng.sample(vs, 2)
        k = float(rng.randint(1, 9))
        cx = float(rng.choice([1, 2, 3]))
        first = {"c": {x: cx}, "k": k}
        second = {"c": {x: -cx, y: float(rng.choice([-2, -1, 1, 2]))}, "k": rng.choice([k, -k])}
        pos = rng.randint(0, len(c["g"]))
        c["g"][pos:pos] = [first]
        c["g"].insert(rng.randint(pos + 1, len(c["g"])), second)
    return c


def gsmall(rng) -> dict:
    """sign-opposite pairs of SMALL numbers (1e-4 .. 1e-2) that differ within their first four significant digits but by less
    than 1e-5 absolutely: they are different numbers (isclose has rtol 1e-5, atol 1e-8) and must not be folded"""
    c = gcontract(rng, "exact")
    vs = c["ins"] + c["outs"]
    x = rng.choice(vs)
    base = rng.choice([0.001234, 0.0005, 0.00321, 0.0042])
    if rng.random() < 0.5:
        pair = [{"c": {x: 1.0}, "k": base}, {"c": {x: -1.0}, "k": round(base + rng.choice([4e-6, 3e-6, 6e-6]), 7)}]
    else:
        pair = [{"c": {x: base}, "k": 1.0}, {"c": {x: -round(base + rng.choice([4e-6, 3e-6]), 7)}, "k": 1.0}]
    pos = rng.randint(0, len(c["g"]))
    c["g"][pos:pos] = pair[:1]
    c["g"].insert(rng.randint(pos + 1, len(c["g"])), pair[1])
    return c


def gtiny(rng) -> dict:
    c = gcontract(rng, "float")
    c["stream"] = "tiny"
    for t in c["a"] + c["g"]:
        for v in list(t["c"]):
            if rng.random() < 0.3:
                t["c"][v] = rng.choice([-1, 1]) * 10 ** rng.uniform(-12, -8.5)
        if rng.random() < 0.3:
            t["k"] = rng.choice([-1, 1]) * 10 ** rng.uniform(-12, -8.5)
    # the `|LHS| = 0` rule: both constants within atol of 0 but their sum is not
    vs = c["ins"] + c["outs"]
    co = gcoeffs(rng, vs, "float")
    k = rng.uniform(6e-9, 9.5e-9)
    pair = [{"c": co, "k": k}, {"c": {v: -x for v, x in co.items()}, "k": rng.uniform(6e-9, 9.5e-9)}]
    pos = rng.randint(0, len(c["g"]))
    c["g"][pos:pos] = pair[:1]
    c["g"].insert(rng.randint(pos + 1, len(c["g"])), pair[1])
    return c


MALFORMED = ["drop", "nodict", "badelem", "nocoeff", "dup_in", "dup_out", "overlap", "a_not_in", "g_not_io"]


def gmalformed(rng, i: int) -> dict:
    c = gcontract(rng, "exact")
    c["stream"] = "malformed"
    kind = MALFORMED[i % len(MALFORMED)]      # round robin: every kind is reached in every run
    c["bad"] = kind
    if kind == "drop":
        c["drop"] = [rng.choice(["assumptions", "guarantees", "input_vars", "output_vars"])]
    elif kind == "dup_in":
        c["ins"] = c["ins"] + [c["ins"][0]]
    elif kind == "dup_out":
        c["outs"] = c["outs"] + [c["outs"][-1]]
    elif kind == "overlap":
        c["outs"] = c["outs"] + [c["ins"][0]]
    elif kind == "a_not_in":
        c["a"] = c["a"] + [{"c": {c["outs"][0]: 1.0}, "k": 1.0}]
    elif kind == "g_not_io":
        c["g"] = c["g"] + [{"c": {"qq": 2.0}, "k": 1.0}]
    return c


# ---- implementation side ------------------------------------------------------------------------------------------

def machine_dict_of(case: dict) -> object:
    """the machine dictionary of a malformed case, built by hand (no contract object exists for it)"""
    def td(t):
        return {"constant": float(t["k"]), "coefficients": {v: float(x) for v, x in t["c"].items()}}
    d = {"input_vars": list(case["ins"]), "output_vars": list(case["outs"]),
         "assumptions": [td(t) for t in case["a"]], "guarantees": [td(t) for t in case["g"]]}
    bad = case.get("bad")
    if bad == "nodict":
        return []
    if bad == "drop":
        for k in case["drop"]:
            d.pop(k)
    elif bad == "badelem":
        d["assumptions"].append("x <= 1")
    elif bad == "nocoeff":
        d["guarantees"].append({"constant": 1.0})
    return d


def sub(fn):
    try:
        return fn()
    except BaseException as e:  # noqa
        return {"err": C.classify_exc(e), "msg": str(e)[:200]}


def md_wire(md: dict) -> object:
    """machine dictionary with exact numbers"""
    if not isinstance(md, dict):
        return md
    out = {}
    for k, v in md.items():
        if k in ("assumptions", "guarantees"):
            out[k] = [({"constant": C.qs(t["constant"]), "coefficients": {x: C.qs(c) for x, c in t["coefficients"].items()}}
                       if isinstance(t, dict) and "coefficients" in t else (({"constant": C.qs(t["constant"])}) if isinstance(t, dict) else t))
                      for t in v]
        else:
            out[k] = v
    return out


class C10(Check):
    pid = "C10"
    title = "Contracts survive serialisation to dictionaries, strings and files"
    level_text = ('Lean theorems machine_roundtrip / fromDict_wf (exact dictionary round trip incl. outputs), round4_close / round4_idem / '
                  'round4_digits / round4_neg (the %.4g rounding on all rationals), readNum_fmt4g / fmt4g_round4 / fmt4g_readNum_fmt4g (the printed numeral, '
                  'read back as a decimal, IS the rounded value, in fixed and scientific notation; printing is stable under its own rounding) and fold_eq_sound / fold_abs_sound / fold_abs0_sound / '
                  'folds_sound (the printer\'s pair folding preserves meaning for exactly opposite pairs, whole loop) about the executable '
                  'model of to_machine_dict / from_dict / _number_to_string / _lhs_str / polyhedral_term_list_to_strings / to_str_list; '
                  'tied to the code by exact string equality of to_str_list, exact equality of the dictionary and of its round trip, and '
                  '>= 20 000 numbers through _number_to_string; the read-back of strings and of both file forms is decided per case by an '
                  'exact Fraction judge (rounded originals as half-spaces) and certified exact LP (meaning after the reader\'s simplify).')
    lean_modules = ["Pacti.Props.C10"]
    theorems = ["Pacti.C10.machine_roundtrip", "Pacti.C10.fromDict_wf", "Pacti.C10.fromDict_missing", "Pacti.C10.mk_normal",
                "Pacti.C10.round4_close", "Pacti.C10.fmt4g_round4_same_digits", "Pacti.C10.readNum_fmt4g", "Pacti.C10.fmt4g_round4", "Pacti.C10.fmt4g_readNum_fmt4g", "Pacti.C10.round4_idem", "Pacti.C10.round4_digits", "Pacti.C10.round4_neg",
                "Pacti.C10.fold_eq_sound", "Pacti.C10.fold_abs_sound", "Pacti.C10.fold_abs0_sound", "Pacti.C10.exact_is_opposite",
                "Pacti.C10.folds_sound", "Pacti.C10.folds_length_le"]
    quick_n = 1500
    thorough_n = 30000
    judge_sample = 60      # every case is already judged completely inside run_impl; the sample re-judges in the parent
    trusted_base = [
        "Lean 4.33 kernel; axioms ⊆ {propext, Classical.choice, Quot.sound}",
        "hand-written model Model/Serial.lean (fmt4g, approxEq, areOpposite, lhsStr, termListToStrs, toMachine, fromDict) tied to serializer.py / polyhedra.py / polyhedral_iocontract.py by this correspondence run (exact strings)",
        "the parser (polyhedral_termlist_from_string) is not modelled here (C09): the read-back is judged per case with exact Fractions",
        "np.isclose is evaluated exactly in the model; inputs on the boundary of the band are not generated",
        "harness: generators, the Fraction judge (round4_frac, half-space comparison), certified exact LP for meaning after the file reader's simplification",
    ]
    assumptions = ["floats denote the exact rationals they are", "every constraint mentions at least one variable",
                   "coefficient and constant magnitudes in [1e-4, 1e6] (the tiny stream outside that range is compared with the model only)",
                   "a file reader's ValueError is accepted only when the written constraints are infeasible (the reader always simplifies)",
                   "meaning after the reader's simplification is LP-judged only when no two rows are nearly (but not exactly) parallel; a would-be violation is audited: if a HiGHS answer of that read is wrong per the certified exact LP the case is booked as an oracle failure (branch oracle-failure:*, counted as tie-divergent), not as a violation"]
    min_branches = {"fold:eq": 150, "fold:absle": 150, "fold:le": 800, "fold:abs0": 20, "sci": 200, "fixed": 800, "bare-name": 300,
                    "file_m:ok": 600, "file_s:ok": 600, "stream:near": 50, "stream:exact": 300, "stream:float": 300,
                    "malformed:ValueError": 10, "malformed:IncompatibleArgsError": 10, "malformed:ValueError": 10,
                    "nonadjacent-fold": 60}

    # ---- cases ------------------------------------------------------------------------------------------------
    def generate(self, rng, n, tier):
        out = []
        nmal = 0
        for _ in range(n):
            r = rng.random()
            if r < 0.36:
                out.append(gcontract(rng, "exact"))
            elif r < 0.80:
                out.append(gcontract(rng, "float"))
            elif r < 0.86:
                out.append(gcontract(rng, "near"))
            elif r < 0.88:
                out.append(gsubset(rng))
            elif r < 0.90:
                out.append(gsmall(rng))
            elif r < 0.95:
                out.append(gtiny(rng))
            else:
                out.append(gmalformed(rng, nmal))
                nmal += 1
        return out

    # ---- implementation ------------------------------------------------------------------------------------------------
    def run_impl(self, case):
        from pacti.contracts import PolyhedralIoContract
        from pacti.terms.polyhedra.serializer import polyhedral_termlist_from_string
        from pacti.utils.fileio import read_contracts_from_file, write_contracts_to_file

        if case["stream"] == "malformed":
            md = machine_dict_of(case)
            return {"md": md_wire(md), "rt": sub(lambda: {"ok": G.un_contract(PolyhedralIoContract.from_dict(md, simplify=False))})}
        c = G.mk_contract(case, simplify=False)
        md = c.to_machine_dict()
        res = {"md": md_wire(md)}
        res["rt"] = sub(lambda: {"ok": G.un_contract(PolyhedralIoContract.from_dict(md, simplify=False))})
        res["a_strs"] = c.a.to_str_list()
        res["g_strs"] = c.g.to_str_list()
        if case["stream"] == "tiny":
            res["parse"] = [sub(lambda s=s: {"ok": len(polyhedral_termlist_from_string(s))}) for s in res["a_strs"] + res["g_strs"]]
            return res
        res["parse"] = [sub(lambda s=s: {"ok": [G.un_term(t) for t in polyhedral_termlist_from_string(s)]}) for s in res["a_strs"] + res["g_strs"]]
        d = c.to_dict()
        res["to_dict"] = d
        res["fs"] = sub(lambda: {"ok": G.un_contract(PolyhedralIoContract.from_strings(**d, simplify=False))})
        with tempfile.TemporaryDirectory() as tmp:
            for key, machine in (("file_m", True), ("file_s", False)):
                def go(machine=machine, key=key):
                    p = os.path.join(tmp, key + ".json")
                    write_contracts_to_file([c], ["the_name"], p, machine_representation=machine)
                    cs, names = read_contracts_from_file(p)
                    return {"ok": [G.un_contract(x) for x in cs], "names": list(names), "cls": [type(x).__name__ for x in cs]}
                res[key] = sub(go)
        res["cheap"] = self.cheap(case, res)
        if not res["cheap"]:
            res["cheap"] = self.lp_part(case, res)     # every case is judged completely, not only a sample
        return res

    # ---- model ------------------------------------------------------------------------------------------------
    def _vm(self, case):
        return C.VarMap(G.names_of(case["a"], case["g"]) + list(case["ins"]) + list(case["outs"]))

    def model_request(self, case, impl):
        vm = self._vm(case)
        names = [vm.n(i) for i in range(len(vm.idx))]
        req = {"op": "serial_case", "names": names, "a": G.w_tl(case["a"], vm), "g": G.w_tl(case["g"], vm),
               "ins": vm.vars(case["ins"]), "outs": vm.vars(case["outs"])}
        bad = case.get("bad")
        if bad == "drop":
            req["drop"] = case["drop"]
        elif bad in ("nodict", "badelem", "nocoeff"):
            req[bad] = True
        return req

    def compare(self, case, impl, model):
        vm = self._vm(case)
        if "err" in impl and "rt" not in impl:
            return f"implementation raised {impl['err']}: {impl.get('msg')}"
        # the machine dictionary, exactly
        if case.get("bad") != "nodict":
            if _canon(impl["md"]) != _canon(model["dict"]):
                return f"machine dictionary differs: impl {impl['md']} model {model['dict']}"
        # its round trip
        irt, mrt = impl["rt"], model["rt"]
        if "err" in irt or "err" in mrt:
            if irt.get("err") != mrt.get("err"):
                return f"from_dict: impl {irt.get('err', 'ok')} vs model {mrt.get('err', 'ok')}"
        else:
            w = {"a": G.w_tl(irt["ok"]["a"], vm), "g": G.w_tl(irt["ok"]["g"], vm), "ins": vm.vars(irt["ok"]["ins"]), "outs": vm.vars(irt["ok"]["outs"])}
            m = mrt["ok"]
            if w["ins"] != m["ins"] or w["outs"] != m["outs"]:
                return f"from_dict interface: impl {w['ins']}/{w['outs']} model {m['ins']}/{m['outs']}"
            for part in ("a", "g"):
                if [C.wire_term_key(t) for t in w[part]] != [C.wire_term_key(t) for t in m[part]]:
                    return f"from_dict {part}: impl {w[part]} model {m[part]}"
        if case["stream"] == "malformed":
            return None
        # the printer, exact strings
        for part in ("a_strs", "g_strs"):
            if impl[part] != model[part]:
                return f"to_str_list ({part}): impl {impl[part]} vs model {model[part]}"
        if impl.get("cheap"):
            return "judge: " + impl["cheap"]["what"]
        return None

    # ---- judge ------------------------------------------------------------------------------------------------
    def cheap(self, case, impl) -> Optional[dict]:
        """the LP-free part of the judge (run on every case inside run_impl, and again by judge)"""
        def v(sig, what):
            return {"signature": "serial:" + sig, "what": what, "witness": {k: case[k] for k in ("a", "g", "ins", "outs")}}
        near = case["stream"] == "near"
        tol = near_tol if near else None
        # 1. machine dictionary round trip, with an equality that compares outputs too
        if "err" in impl["rt"]:
            return v("machine-roundtrip-raises", f"from_dict(to_machine_dict(c), simplify=False) raised {impl['rt']['err']}")
        d = eq_contract_exact(case, impl["rt"]["ok"])
        if d:
            return v("machine-roundtrip-differs", "from_dict(to_machine_dict(c), simplify=False) != c: " + d)
        if case["stream"] == "tiny":
            return None
        # 2. every printed string is accepted by the parser
        strs = impl["a_strs"] + impl["g_strs"]
        for s, p in zip(strs, impl["parse"]):
            if "err" in p:
                return v("printed-string-rejected", f"the printer emitted {s!r}, the parser answers {p['err']}")
        # 3. read-back of the strings: interface and rounded meaning
        if "err" in impl["fs"]:
            return v("from-strings-raises", f"from_strings(**to_dict(c)) raised {impl['fs']['err']}: {impl['fs'].get('msg')}")
        fs = impl["fs"]["ok"]
        if fs["ins"] != case["ins"] or fs["outs"] != case["outs"]:
            return v("string-interface", f"interface after the string round trip: {fs['ins']}/{fs['outs']} instead of {case['ins']}/{case['outs']}")
        for part in ("a", "g"):
            d = same_halfspaces([fr_term(t) for t in fs[part]], [rounded_term(t) for t in case[part]], tol)
            if d:
                return v("string-meaning", f"{part}: {d}; printed {impl[part + '_strs']}")
        # 4. files: names, class, interface; machine form: the assumptions are the original ones exactly
        for key in ("file_m", "file_s"):
            f = impl[key]
            if "err" in f:
                if f["err"] != "ValueError":
                    return v(key + "-raises", f"{key}: reading the file back raised {f['err']}: {f.get('msg')}")
                continue   # ValueError: decided by the LP part (infeasible constraints)
            if f["names"] != ["the_name"] or f["cls"] != ["PolyhedralIoContract"] or len(f["ok"]) != 1:
                return v(key + "-shape", f"{key}: read back {f['names']} {f['cls']}")
            r = f["ok"][0]
            if r["ins"] != case["ins"] or r["outs"] != case["outs"]:
                return v(key + "-interface", f"{key}: interface {r['ins']}/{r['outs']} instead of {case['ins']}/{case['outs']}")
            if key == "file_m":
                if not eq_terms_exact(r["a"], case["a"]):
                    return v("file_m-assumptions", "machine file: assumptions changed")
                # the reader only selects among the written guarantees
                # (simplify's `b += 1; b -= 1` may move a constant by an ulp of 1: 1e-9*max(1,|x|) as everywhere)
                ks = [fr_term(t) for t in case["g"]]
                for t in r["g"]:
                    if not any(term_matches(fr_term(t), e, lambda b: RTOL * max(1, abs(b))) for e in ks):
                        return v("file_m-guarantee-invented", f"machine file: guarantee {t} is not one of the written ones")
            else:
                d = same_halfspaces([fr_term(t) for t in r["a"]], [rounded_term(t) for t in case["a"]], tol)
                if d:
                    return v("file_s-assumptions", "string file, assumptions: " + d)
                es = [rounded_term(t) for t in case["g"]]
                for t in r["g"]:
                    p = fr_term(t)
                    if not any(term_matches(p, e, tol) or (tol is None and term_matches(scaled(p), scaled(e))) for e in es):
                        return v("file_s-guarantee-invented", f"string file: guarantee {t} is none of the rounded written ones")
        return None

    def lp_part(self, case, impl) -> Optional[dict]:
        """meaning after the file reader's simplification (numeric reading of judge.py: box 1000, 1e-4(1+|k|)).
        The cheap part has already shown that the reader kept the assumptions and only *selected* guarantees, so what is
        left to decide is: every written guarantee that is gone is implied by what was read back; and a ValueError is
        raised only for infeasible constraints.
        A would-be violation is then attributed: the read is repeated with `polyhedra.linprog` wrapped, and every answer
        HiGHS gave is re-derived by the certified exact LP.  If HiGHS answered wrongly (wrong status, or optimum off by
        more than 1e-6(1+|m|)) the case is an *oracle failure* (DESIGN 3.2: the LP engine is an oracle), recorded in
        impl["oracle"] and not a violation of this property."""
        impl.setdefault("oracle", [])
        for key in ("file_m", "file_s"):
            f = impl[key]
            if key == "file_m":
                a0, g0 = case["a"], case["g"]
            else:
                # the reference is the un-simplified read-back of the same strings, which the cheap part has just compared
                # (exactly, as half-spaces) with the rounded originals
                a0, g0 = impl["fs"]["ok"]["a"], impl["fs"]["ok"]["g"]
            if nearly_parallel(a0 + g0):
                # two rows at an angle below 1e-2 that are not exactly (anti)parallel: the reader's float LPs are
                # ill-conditioned there (vertices at 1e4..1e9); what simplify does with such systems is C07's question,
                # not a serialisation question.  Structure (interface, assumptions, guarantees selected) was checked above.
                continue
            v = None
            if "err" in f:
                feas, pt = J.feasible(_relax(a0 + g0), box=J.BOX)
                if feas:
                    v = {"signature": f"serial:{key}-ValueError-on-feasible", "what": f"{key}: the reader raised ValueError although the written constraints {a0 + g0} are feasible (with margin 1e-6, |v| <= 1000)",
                         "witness": J.pt_str(pt)}
            else:
                r = f["ok"][0]
                close = lambda b: RTOL * max(1, abs(b))  # noqa: E731
                kept = [fr_term(t) for t in r["g"]] + [fr_term(t) for t in r["a"]]
                gone = [t for t in g0 if not any(term_matches(fr_term(t), e, close) for e in kept)]
                if gone:
                    for t, pt in zip(gone, entails_many(r["a"] + r["g"], gone)):
                        if pt is not None:
                            v = {"signature": f"serial:{key}-meaning-lost", "what": f"{key}: written guarantee {t} is gone and is not implied by the contract read back {r['a'] + r['g']}",
                                 "witness": J.pt_str(pt)}
                            break
            if v is not None:
                bad = oracle_audit(case, key == "file_m")
                if bad:
                    impl["oracle"].append({"file": key, "would_be": v["signature"], "wrong_lp_answer": bad})
                else:
                    return v
        return None

    def judge(self, case, impl):
        if case["stream"] == "malformed":
            return None
        if "err" in impl and "rt" not in impl:
            return {"signature": "serial:crash:" + impl["err"], "what": f"serialising raised {impl['err']}: {impl.get('msg')}", "witness": case}
        c = self.cheap(case, impl)
        if c or case["stream"] == "tiny":
            return c
        v = self.lp_part(case, impl)
        if v is None and impl.get("oracle"):
            # a genuine loss of meaning / spurious ValueError through the file reader, traced to a wrong LP answer of HiGHS
            # on badly scaled rows (audited against the certified exact LP): recorded in known_findings.json by call site
            o = impl["oracle"][0]
            return {"signature": "serial:file-reader-wrong-LP-answer", "what": f"{o['file']}: {o['would_be']} because HiGHS answered an LP of the reader's simplification wrongly: {str(o['wrong_lp_answer'])[:300]}",
                    "witness": {"case": case, "audit": impl["oracle"]}}
        return v

    # ---- bookkeeping ------------------------------------------------------------------------------------------------
    def branch(self, case, impl, model):
        b = ["stream:" + case["stream"]]
        if case["stream"] == "malformed":
            b.append("malformed:" + str(impl.get("rt", {}).get("err", "ok")))
            return b
        if model:
            for part in ("a", "g"):
                fl = model.get(part + "_folds", [])
                for f in fl:
                    b.append("fold:" + f)
            if _nonadjacent(case, model):
                b.append("nonadjacent-fold")
        strs = impl.get("a_strs", []) + impl.get("g_strs", [])
        if any(("e+" in s or "e-" in s) for s in strs):
            b.append("sci")
        if any(("e+" not in s and "e-" not in s) for s in strs):
            b.append("fixed")
        import re
        if any(re.search(r"(^|[-+|] ?)[A-Za-z]", s) for s in strs):
            b.append("bare-name")
        for key in ("file_m", "file_s"):
            if key in impl:
                b.append(key + (":ok" if "ok" in impl[key] else ":" + impl[key]["err"]))
        for o in impl.get("oracle", []):
            b.append("oracle-failure:" + o["would_be"].split(":")[-1].split("-", 1)[-1])
        return b

    def nontrivial(self, case, impl):
        return len(case["a"]) + len(case["g"]) >= 1

    # ---- bulk number stream + direct ops ------------------------------------------------------------------------------------------------
    def extra(self, tier, rng):
        C.setup_pacti()
        from pacti.terms.polyhedra.serializer import _number_to_string

        n = 24000 if tier == "quick" else 1000000
        xs: List[float] = [0.0, 9999.5, 99995.0, 9.9995e-05, 1e-05, 1e-4, 1e6, 999950.0, 0.5, 1234.5, 1235.5, 1.0005, 1e100, 5e-324]
        while len(xs) < n:
            r = rng.random()
            if r < 0.6:
                x = gnum(rng, "float")
            elif r < 0.75:
                x = gnum(rng, rng.choice(["int", "dec4"]))
            elif r < 0.9:
                x = rng.randint(1, 2**20) / 2.0 ** rng.randint(0, 30)
            else:
                x = 10 ** rng.uniform(-300, 300)
            xs.append(x if rng.random() < 0.6 else -x)
        reqs = [{"op": "fmt4g", "xs": [C.qs(x) for x in xs[i:i + 1000]]} for i in range(0, len(xs), 1000)]
        res = C.run_driver(reqs, nproc=16)
        strs = [s for r in res for s in r["ok"]]
        r4 = [Fraction(s) for r in res for s in r["r4"]]
        viol = []
        sci = 0
        for x, s, v4 in zip(xs, strs, r4):
            ps = _number_to_string(x)
            sci += ("e" in ps)
            if ps != s:
                viol.append({"signature": "serial:number-format", "what": f"_number_to_string({x!r}) = {ps!r}, the %.4g model gives {s!r}",
                             "witness": {"x": x.hex()}, "case": {"x": x.hex()}})
                break
            # the model's own consistency, and the independent Fraction rounding
            if Fraction(s) != v4 or v4 != round4_frac(Fraction(x)):
                viol.append({"signature": "serial:round4-inconsistent", "what": f"x={x!r}: printed {s}, round4 {v4}, Fraction rounding {round4_frac(Fraction(x))}",
                             "witness": {"x": x.hex()}, "case": {"x": x.hex()}, "infra": False})
                break
        # reading numerals back: the model's `readNum` against Python's exact `Fraction(s)` on every printed string and on
        # perturbed / malformed ones (the model covers the printer's shape `[-]ddd[.ddd][e(+|-)dd]` and rejects the rest)
        import re

        shape = re.compile(r"^-?[0-9]+(\.[0-9]+)?(e[+-][0-9]+)?$")
        pool = sorted(set(strs))[:: max(1, len(set(strs)) // 4000)]
        odd = ["1e5", "1E+05", "1.", ".5", "1.5e+", "e5", "--1", "+1", "1e+05", "007", "1.2.3", "1e+0x", "", "-", "-0.5e-03", "12.50e+10", " 1", "1_0"]
        for sx in pool[:300]:
            odd += [sx + "0", sx.replace("e", "E"), sx.replace(".", ",") if "." in sx else sx + ".", sx[:-1]]
        ss = pool + odd
        rres = C.run_driver([{"op": "readnum", "ss": ss[i:i + 2000]} for i in range(0, len(ss), 2000)], nproc=16)
        rd = [x for r in rres for x in r["ok"]]
        n_shape = 0
        for sx, mv in zip(ss, rd):
            if shape.match(sx):
                n_shape += 1
                if mv is None or Fraction(mv) != Fraction(sx) or abs(float(Fraction(mv)) - float(sx)) > 1e-12 * abs(float(sx)):
                    viol.append({"signature": "serial:readnum-model", "what": f"readNum({sx!r}) = {mv}, Python reads {Fraction(sx)}", "witness": {"s": sx},
                                 "case": {"s": sx}})
                    break
            elif mv is not None:
                viol.append({"signature": "serial:readnum-model", "what": f"readNum accepts {sx!r} (outside the modelled shape) as {mv}", "witness": {"s": sx},
                             "case": {"s": sx}})
                break
        # and the library's own parser reads a printed numeral as the same number
        from pacti.terms.polyhedra.serializer import polyhedral_termlist_from_string

        n_parse = 0
        for sx in [x for x in pool if not x.startswith("-") and float(x) != 0][:400]:
            try:
                tl = polyhedral_termlist_from_string(sx + " x <= 1")
                cf = list(tl[0].variables.values())[0]
            except Exception as e:  # noqa
                viol.append({"signature": "serial:printed-number-not-parsed", "what": f"the grammar rejects the printed numeral {sx!r}: {e!r}", "witness": {"s": sx}, "case": {"s": sx}})
                break
            n_parse += 1
            if float(cf) != float(sx):
                viol.append({"signature": "serial:printed-number-misread", "what": f"the grammar reads {sx!r} as {cf!r}", "witness": {"s": sx}, "case": {"s": sx}})
                break
        return viol, {"number_stream": {"numbers": len(xs), "scientific": sci, "all_equal": not viol, "readnum_strings": len(ss), "readnum_in_shape": n_shape,
                                        "grammar_reads": n_parse}}


def entails_many(hyps: List[dict], goals: List[dict], tol_rel: Fraction = J.TOL, box: int = J.BOX) -> List[Optional[dict]]:
    """judge.entails for several goals over the same hypotheses in one driver call"""
    names = sorted(set(G.names_of(hyps, goals)))
    vm = C.VarMap(names)
    cs = hyps + G.box_tl(names, -box, box)
    res = J.lp_batch([(g["c"], cs) for g in goals], vm)
    out: List[Optional[dict]] = []
    for g, r in zip(goals, res):
        if r["status"] == "infeasible":
            out.append(None)
            continue
        if r["status"] != "optimal":
            raise RuntimeError("judge LP: " + r["status"])
        k = C.q(g["k"])
        if Fraction(r["m"]) > k + tol_rel * (1 + abs(k)):
            pt = {n: Fraction(0) for n in names}
            for x, c in r["x"]:
                pt[vm.n(int(x))] = Fraction(c)
            out.append(pt)
        else:
            out.append(None)
    return out


def oracle_audit(case: dict, machine: bool) -> Optional[dict]:
    """repeat the file round trip with polyhedra.linprog wrapped; return the first LP whose HiGHS answer is wrong
    according to the certified exact LP (None: every answer was right)"""
    import numpy as np
    from pacti.terms.polyhedra import polyhedra as PP
    from pacti.utils.fileio import read_contracts_from_file, write_contracts_to_file

    log = []
    orig = PP.linprog

    def wrapped(c, A_ub=None, b_ub=None, bounds=None, **kw):
        res = orig(c=c, A_ub=A_ub, b_ub=b_ub, bounds=bounds, **kw)
        log.append((np.array(c, dtype=float).tolist(), np.array(A_ub, dtype=float).tolist(), np.array(b_ub, dtype=float).tolist(),
                    int(res["status"]), None if res["fun"] is None else float(res["fun"])))
        return res

    PP.linprog = wrapped
    try:
        c = G.mk_contract(case, simplify=False)
        with tempfile.TemporaryDirectory() as tmp:
            p = os.path.join(tmp, "f.json")
            write_contracts_to_file([c], ["the_name"], p, machine_representation=machine)
            try:
                read_contracts_from_file(p)
            except ValueError:
                pass
    finally:
        PP.linprog = orig
    for k, (obj, A, b, status, fun) in enumerate(log):
        n = len(obj)
        names = [f"c{j:03d}" for j in range(n)]
        vm = C.VarMap(names)
        cs = [{"c": {names[j]: A[i][j] for j in range(n) if A[i][j] != 0}, "k": b[i]} for i in range(len(A))]
        # linprog minimises obj.x; the driver maximises
        r = J.lp_batch([({names[j]: -obj[j] for j in range(n) if obj[j] != 0}, cs)], vm)[0]
        ex = r["status"]
        desc = {"lp": k, "highs_status": status, "highs_fun": fun, "exact": ex, "exact_max": r.get("m")}
        if status == 0:
            if ex != "optimal":
                return desc
            m = Fraction(r["m"])
            if abs(Fraction(-fun) - m) > Fraction(1, 10**6) * (1 + abs(m)):
                return desc
        elif status == 2:
            if ex != "infeasible":
                return desc
        elif status == 3:
            if ex != "unbounded":
                return desc
        else:
            return desc   # iteration limit / numerical difficulties: no answer at all
    return None


def nearly_parallel(ts: List[dict], ang: Fraction = Fraction(1, 100)) -> bool:
    ks = []
    for t in ts:
        c = fr_term(t)[0]
        if c:
            m = max(abs(x) for x in c.values())
            ks.append({v: x / m for v, x in c.items()})
    for i in range(len(ks)):
        for j in range(i + 1, len(ks)):
            a, b = ks[i], ks[j]
            if set(a) != set(b):
                continue
            for sgn in (1, -1):
                d = max(abs(a[v] - sgn * b[v]) for v in a)
                if 0 < d <= ang:
                    return True
    return False


def _canon(x):
    import json
    return json.dumps(x, sort_keys=True)


def _fl(t):
    return {"c": {v: c for v, c in t[0].items()}, "k": t[1]}


def _relax(ts):
    """'feasible with margin': every inequality without an exactly opposite partner is tightened by 1e-6(1+|k|)"""
    out = []
    keys = [fr_term(t)[0] for t in ts]
    for i, t in enumerate(ts):
        k = C.q(t["k"])
        neg = {v: -c for v, c in keys[i].items()}
        paired = any(j != i and keys[j] == neg for j in range(len(ts)))
        out.append({"c": t["c"], "k": k if paired else k - Fraction(1, 10**6) * (1 + abs(k))})
    return out


def _nonadjacent(case, model) -> bool:
    """some fold (per the strings) joined two terms that were not neighbours in the original list"""
    for part in ("a", "g"):
        fl = model.get(part + "_folds", [])
        ts = case[part]
        if not any(f != "le" for f in fl):
            continue
        # replay: walk the list as the loop does, using only the fold kinds reported
        rest = list(range(len(ts)))
        for f in fl:
            if not rest:
                break
            head = rest.pop(0)
            if f == "le":
                continue
            # partner = first remaining term with exactly/approximately negated coefficients meeting the rule; approximate here
            for j in rest:
                if set(ts[j]["c"]) == set(ts[head]["c"]) and all(abs(ts[j]["c"][v] + ts[head]["c"][v]) <= 2e-5 * abs(ts[head]["c"][v]) + 1e-8 for v in ts[head]["c"]):
                    kj, kh = ts[j]["k"], ts[head]["k"]
                    ok = {"eq": abs(kh + kj) <= 2e-5 * abs(kj) + 1e-8, "absle": abs(kh - kj) <= 2e-5 * abs(kj) + 1e-8, "abs0": True}[f]
                    if ok:
                        if j != rest[0]:
                            return True
                        rest.remove(j)
                        break
    return False


CHECK = C10()
