"""C02: pairs (C, C1) on which the quotient is asked: dividends built by composing C1 with a hidden partner through
the implementation itself (so a quotient exists), dividends whose assumptions do / do not imply the divisor's (both
branches of the refinement test are counted), unrelated pairs, all additional_inputs subsets (sampled) plus illegal
ones, simplify flag, tactic orders as in C01.  Non-trivial = dividend and divisor share a variable."""
from __future__ import annotations

import random

from .. import common as C
from .. import contracts as K
from .. import gen as G
from ..framework import Check
from .c01 import rand_order


class C02(Check):
    pid = "C02"
    title = "Quotient composed with the divisor refines the dividend"
    level_text = ("Lean theorems quotient_sound_poly_any_sound_table / quotient_sound_poly (real tactic table, every order): any implementation of the divisor together with any implementation of the "
                  "returned quotient meets the dividend, for every additional-input set, flag and tactic order over a sound tactic table (instantiation of the generic C05 "
                  "theorem with the proved polyhedral primitive specs; both branches of the refinement test and both try/except fall-backs are cases of the proof); "
                  "whole-operation correspondence with quotient_tactics; exact certified judge on the implementation's own quotient.")
    lean_modules = ["Pacti.Props.C02"]
    theorems = ["Pacti.C02.quotient_sound_poly_any_sound_table", "Pacti.C02.quotient_sound_poly"]
    quick_n = 300
    thorough_n = 10000
    judge_sample = 100
    trusted_base = K.__dict__.get("TB", []) or [
        "Lean 4.33 kernel; axioms ⊆ {propext, Classical.choice, Quot.sound}",
        "Model/Algebra.lean + generated Gen/Iface.lean, Model/Elim.lean, Model/Poly.lean tied to the code by this correspondence run",
        "HiGHS / sympy.solve are oracles (certificate-checked exact simplex; exact Gauss-Jordan)",
        "all six tactics are modelled and proved sound (C04.driver_tactics_sound); what sympy.solve returns for a singular system is not modelled (the model abstains there: oracle-stuck, counted)",
    ]
    assumptions = ["floats denote exact rationals; numeric reading of the property"]
    min_branches = {"ok": 60, "IncompatibleArgsError": 20, "from-composition": 60, "g1-implies-a1": 10}

    def generate(self, rng, n, tier):
        C.setup_pacti()
        out = []
        tries = 0
        while len(out) < n and tries < 20 * n:
            tries += 1
            c1, h, w = K.gen_pair(rng)
            m = rng.random()
            if m < 0.12:
                # the dividend's assumptions do NOT imply the divisor's, but do once the divisor's guarantees are added, and those
                # guarantees constrain a divisor output that becomes a quotient input
                b = float(rng.randint(0, 3))
                k = float(rng.choice([1, 2]))
                divisor = {"ins": ["u"], "outs": ["o"], "a": [{"c": {"u": k}, "k": k * b}],
                           "g": rng.choice([[{"c": {"o": -1.0}, "k": 0.0}, {"c": {"o": 1.0, "u": 1.0}, "k": b}],
                                            [{"c": {"u": 1.0, "o": -1.0}, "k": 0.0}, {"c": {"o": 1.0}, "k": b}]])}
                dividend = {"ins": ["i"] + (["u"] if rng.random() < 0.4 else []), "outs": ["p"], "a": [{"c": {"i": 1.0}, "k": float(rng.randint(1, 6))}],
                            "g": [{"c": {"p": 1.0, "i": -1.0}, "k": float(rng.randint(0, 3))}]}
                out.append({"op": "quotient", "c1": dividend, "c2": divisor, "addl": [], "simplify": rng.random() < 0.6, "order": rand_order(rng), "tag": "g1-implies-a1"})
                continue
            if m < 0.19:
                # the dividend's guarantee sums three variables that only the divisor's assumptions (shared inputs) bound, through a
                # system that is (or just fails to be) column-dominant: tactic 1 must take all three rows or decline
                c13 = rng.choice([0.6, 0.5, 0.75, 0.25, 0.4])
                c23 = rng.choice([0.6, 0.5, 0.75, 0.25, 0.4])
                asm = [{"c": {"v0": 1.0, "v1": c13}, "k": 1.0}, {"c": {"v1": 1.0}, "k": 1.0}, {"c": {"v2": 1.0, "v1": c23}, "k": 1.0}, {"c": {"v1": -1.0}, "k": 0.0}]
                dividend = {"ins": ["v0", "v1", "v2"], "outs": ["o"], "a": [dict(c=dict(t["c"]), k=t["k"]) for t in asm],
                            "g": [{"c": {"o": 1.0, "v0": 1.0, "v1": 1.0, "v2": 1.0}, "k": float(rng.randint(6, 12))}]}
                divisor = {"ins": ["v0", "v1", "v2"], "outs": ["x"], "a": [dict(c=dict(t["c"]), k=t["k"]) for t in asm], "g": [{"c": {"x": 1.0}, "k": 5.0}]}
                if rng.random() < 0.3:
                    rng.shuffle(dividend["a"])
                out.append({"op": "quotient", "c1": dividend, "c2": divisor, "addl": [], "simplify": rng.random() < 0.6,
                            "order": [1, 2, 3, 4, 5] if rng.random() < 0.7 else rand_order(rng), "tag": "kay3"})
                continue
            if m < 0.26:
                # a dividend guarantee with a NEGATIVE coefficient on a divisor output that the divisor bounds from below only through
                # a chain over another of its outputs: tactic 4 has to follow the chain through the lower-bound branch
                k1, k2, k3 = float(rng.randint(0, 3)), float(rng.randint(1, 6)), float(rng.randint(1, 4))
                dividend = {"ins": ["i"], "outs": ["o", "v", "w"], "a": [{"c": {"i": 1.0}, "k": 1.0}], "g": [{"c": {"o": 1.0, "v": -1.0}, "k": float(rng.randint(5, 12))}]}
                divisor = {"ins": ["i"], "outs": ["v", "w", "z"], "a": [],
                           "g": [{"c": {"w": 1.0, "v": -1.0}, "k": k1}, {"c": {"w": 1.0, "z": -1.0}, "k": k2}, {"c": {"z": 1.0, "w": -1.0}, "k": k3}]}
                if rng.random() < 0.3:
                    rng.shuffle(divisor["g"])
                out.append({"op": "quotient", "c1": dividend, "c2": divisor, "addl": [], "simplify": rng.random() < 0.6,
                            "order": [1, 2, 3, 4, 5] if rng.random() < 0.7 else rand_order(rng), "tag": "chain4"})
                continue
            if rng.random() < 0.06:
                # two dividend guarantees need a bound on the same hidden variable from the same side and the divisor offers none from
                # that side: each could only be "refined" with the other one as a fact (circular) — the quotient has to be refused
                s1, s2 = float(rng.choice([2, 3])), float(rng.choice([4, 5]))
                dividend = {"ins": ["i"], "outs": ["o", "w"], "a": [], "g": [{"c": {"o": 1.0, "i": -s1}, "k": 0.0}, {"c": {"w": 1.0, "i": -s2}, "k": float(rng.randint(0, 2))}]}
                divisor = {"ins": ["i"], "outs": ["z"], "a": [], "g": [{"c": {"i": 1.0, "z": -1.0}, "k": 0.0}] if rng.random() < 0.7 else [{"c": {"z": 1.0, "i": -1.0}, "k": 0.0}]}
                out.append({"op": "quotient", "c1": dividend, "c2": divisor, "addl": [], "simplify": rng.random() < 0.5,
                            "order": rng.choice([[1, 2, 3, 4, 5], [1, 2, 3, 4, 5], [2, 3, 1, 4, 5], [4, 1], [4]]), "tag": "mutual-q"})
                continue
            if m < 0.65:
                try:
                    top = G.un_contract(G.mk_contract(c1, simplify=False).compose(G.mk_contract(h, simplify=False)))
                except Exception:
                    continue
                tag = "from-composition"
                if rng.random() < 0.3:
                    # weaken / strengthen the dividend's assumptions so that the refinement test goes either way
                    top["a"] = top["a"][: rng.randint(0, len(top["a"]))]
                    top["g"] = [t for t in top["g"]]
                dividend, divisor = top, (c1 if rng.random() < 0.8 else h)
            else:
                dividend, divisor, tag = c1, h, "unrelated"
            pool = divisor["outs"] + [v for v in dividend["ins"] if v not in divisor["outs"]]
            addl = [v for v in pool if rng.random() < 0.25]
            if rng.random() < 0.05:
                addl.append("zz")
            out.append({"op": "quotient", "c1": dividend, "c2": divisor, "addl": addl, "simplify": rng.random() < 0.6, "order": rand_order(rng), "tag": tag})
        return out

    def run_impl(self, case):
        return K.run_op(case)

    def model_request(self, case, impl):
        if impl.get("stage") == "operands":
            return None
        return K.model_req(case, impl)

    def compare(self, case, impl, model):
        return K.compare_contract_result(impl, model, K.case_vm(case))

    def judge(self, case, impl):
        if "err" in impl:
            if impl["err"] not in ("IncompatibleArgsError", "ValueError"):
                return {"signature": "quotient:undocumented-exception:" + impl["err"], "what": str(impl)[:300], "witness": case}
            return None
        q = impl["ok"]
        top, c1 = case["c1"], case["c2"]
        bad = K.judge_sound(top["a"], [c1, q], c1["a"] + q["a"] + top["g"])
        if bad:
            used = sorted(set(k for lst in impl.get("tactics", []) for k in lst if k > 0))
            return {"signature": f"quotient:unsound:tactics={used}", "what": f"divisor + quotient do not meet the dividend: {bad['goal']} fails", "witness": bad}
        return None

    def branch(self, case, impl, model):
        b = [impl.get("err", "ok"), case["tag"]]
        for lst in impl.get("tactics", []):
            for k in set(lst):
                b.append(f"tactic{k}")
        return b

    def nontrivial(self, case, impl):
        a, b = case["c1"], case["c2"]
        return bool(set(a["ins"] + a["outs"]) & set(b["ins"] + b["outs"]))


CHECK = C02()
