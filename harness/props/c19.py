"""C19: families of 2-3 objects of one kind (polyhedral term, term list, contract built with the default simplification,
compound contract): a base object and single-field edits of it — permuted / extended / reduced input and output lists,
one coefficient or one constant changed (by a unit, by an ulp), term order, dict insertion order of the coefficients,
zero coefficients passed to the constructor, 0.0 / -0.0 constants (also the -0.0 the parser itself produces for `… <= 0`) —
plus copies, dict and string round trips and parsed forms.  For every ordered pair `==` and `hash` are taken on the real
objects and compared with the Lean model; the judge decides the property on the objects themselves.
Non-trivial = all objects of the family could be built."""
from __future__ import annotations

import math
import random
from fractions import Fraction
from typing import Any, Dict, List, Optional, Tuple

from .. import common as C
from .. import gen as G
from .. import judge as J
from ..framework import Check

NAMES = ["a", "b", "c", "d", "e", "f", "x1", "x10", "x2", "Z"]
ODD = [0.1, 1.0 / 3.0, 2.5e-3, 1e7 + 0.5, 0.7, 123.456, 5e-324, 1e300]


# ------------------------------------------------------------------------------------------------
# specs -> pacti objects -> realised structure


def _mk_term(spec: dict):
    from pacti.iocontract import Var
    from pacti.terms.polyhedra import PolyhedralTerm

    return PolyhedralTerm({Var(v): c for v, c in spec["c"]}, spec["k"])


def _mk_tl(spec: List[dict]):
    from pacti.terms.polyhedra import PolyhedralTermList

    return PolyhedralTermList([_mk_term(t) for t in spec])


def _fmt(x: float) -> str:
    s = repr(abs(float(x)))
    return s


def term_string(spec: dict, form: str) -> str:
    """`lhs <= k` (form le) or the same inequality written `-lhs >= -k` (form ge)"""
    sgn = 1.0 if form == "le" else -1.0
    parts = []
    for i, (v, c) in enumerate(spec["c"]):
        c = sgn * c
        neg = math.copysign(1.0, c) < 0
        if i == 0:
            parts.append(("-" if neg else "") + _fmt(c) + v)
        else:
            parts.append((" - " if neg else " + ") + _fmt(c) + v)
    k = sgn * spec["k"]
    ks = ("-" if math.copysign(1.0, k) < 0 else "") + _fmt(k)
    return "".join(parts) + (" <= " if form == "le" else " >= ") + ks


def _parse_tl(spec: List[dict], form: str):
    from pacti.terms.polyhedra import PolyhedralTermList, serializer

    out = []
    for t in spec:
        out.extend(serializer.polyhedral_termlist_from_string(term_string(t, form)))
    return PolyhedralTermList(out)


def _mk_contract(spec: dict):
    from pacti.contracts import PolyhedralIoContract
    from pacti.iocontract import Var

    if spec.get("strings"):
        return PolyhedralIoContract.from_strings(assumptions=[term_string(t, spec["strings"]) for t in spec["a"]],
                                                 guarantees=[term_string(t, spec["strings"]) for t in spec["g"]],
                                                 input_vars=list(spec["ins"]), output_vars=list(spec["outs"]))
    return PolyhedralIoContract(assumptions=_mk_tl(spec["a"]), guarantees=_mk_tl(spec["g"]), input_vars=[Var(x) for x in spec["ins"]],
                                output_vars=[Var(x) for x in spec["outs"]])


def _mk_compound(spec: dict):
    from pacti.contracts.polyhedral_iocontract import NestedPolyhedra, PolyhedralIoContractCompound
    from pacti.iocontract import Var

    return PolyhedralIoContractCompound(assumptions=NestedPolyhedra([_mk_tl(l) for l in spec["a"]], force_empty_intersection=True),
                                        guarantees=NestedPolyhedra([_mk_tl(l) for l in spec["g"]], force_empty_intersection=False),
                                        input_vars=[Var(x) for x in spec["ins"]], output_vars=[Var(x) for x in spec["outs"]])


def build(kind: str, o: dict):
    """the pacti object an object description denotes"""
    via, spec = o["via"], o["spec"]
    if kind == "term":
        if via == "parse":
            return _parse_tl([spec], o.get("form", "le")).terms[0]
        t = _mk_term(spec)
        return t.copy() if via == "copy" else t
    if kind == "tl":
        if via == "parse":
            return _parse_tl(spec, o.get("form", "le"))
        l = _mk_tl(spec)
        return l.copy() if via == "copy" else l
    if kind == "contract":
        from pacti.contracts import PolyhedralIoContract

        c = _mk_contract(spec)
        if via == "copy":
            return c.copy()
        if via == "dict":
            return PolyhedralIoContract.from_dict(c.to_machine_dict())
        if via == "str":
            return PolyhedralIoContract.from_strings(**c.to_dict())
        return c
    return _mk_compound(spec)


def r_term(t) -> dict:
    return {"c": [[str(k), float(v)] for k, v in t.variables.items()], "k": float(t.constant)}


def r_tl(l) -> List[dict]:
    return [r_term(t) for t in l.terms]


def realise(kind: str, x) -> Any:
    if kind == "term":
        return r_term(x)
    if kind == "tl":
        return r_tl(x)
    if kind == "contract":
        return {"ins": [str(v) for v in x.inputvars], "outs": [str(v) for v in x.outputvars], "a": r_tl(x.a), "g": r_tl(x.g)}
    return {"ins": [str(v) for v in x.inputvars], "outs": [str(v) for v in x.outputvars],
            "a": [r_tl(l) for l in x.a.nested_termlist], "g": [r_tl(l) for l in x.g.nested_termlist]}


# ------------------------------------------------------------------------------------------------
# the judge's own notion of "the same" (exact, on the realised floats; 0.0 and -0.0 are the same number)


def same_term(t: dict, u: dict) -> bool:
    d1, d2 = dict(map(tuple, t["c"])), dict(map(tuple, u["c"]))
    return set(d1) == set(d2) and all(d1[v] == d2[v] for v in d1) and t["k"] == u["k"]


def same_tl(l: List[dict], m: List[dict]) -> bool:
    return len(l) == len(m) and all(same_term(t, u) for t, u in zip(l, m))


def _bits(x: Any) -> Any:
    """structure with every float replaced by its hex form (distinguishes the two zeros)"""
    if isinstance(x, float):
        return x.hex()
    if isinstance(x, list):
        return [_bits(y) for y in x]
    if isinstance(x, dict):
        return {k: _bits(v) for k, v in x.items()}
    return x


def _canon(kind: str, r: Any) -> Any:
    """dict insertion order removed"""
    if kind == "term":
        return {"c": sorted(map(list, r["c"])), "k": r["k"]}
    if kind == "tl":
        return [_canon("term", t) for t in r]
    if kind == "contract":
        return {"ins": r["ins"], "outs": r["outs"], "a": _canon("tl", r["a"]), "g": _canon("tl", r["g"])}
    return r


def only_zero_sign(kind: str, r1: Any, r2: Any) -> bool:
    """the two realised objects are the same numbers everywhere but differ in the sign of some zero"""
    if kind == "compound":
        return False
    c1, c2 = _canon(kind, r1), _canon(kind, r2)
    return c1 == c2 and _bits(c1) != _bits(c2)


def has_zero(r: Any) -> bool:
    if isinstance(r, float):
        return r == 0
    if isinstance(r, list):
        return any(has_zero(y) for y in r)
    if isinstance(r, dict):
        return any(has_zero(v) for v in r.values())
    return False


def contract_diffs(r1: dict, r2: dict) -> List[str]:
    d = []
    if r1["ins"] != r2["ins"]:
        d.append("inputs")
    if r1["outs"] != r2["outs"]:
        d.append("outputs")
    if not same_tl(r1["a"], r2["a"]):
        d.append("assumptions")
    if not same_tl(r1["g"], r2["g"]):
        d.append("guarantees")
    return d


def _tl_dict(l: List[dict]) -> List[dict]:
    return [{"c": {v: c for v, c in t["c"]}, "k": t["k"]} for t in l]


def nested_clearly_differ(pairs: List[Tuple[List[List[dict]], List[List[dict]]]]) -> List[bool]:
    """for each pair (A, B) of nested term lists: is `A <= B <= A` (every member contained in some member of the other)
    violated beyond the judge's tolerance?  Exact LP through the certified driver, one batch for all pairs."""
    names = set()
    for A, B in pairs:
        for P in A + B:
            for t in P:
                names.update(v for v, _ in t["c"])
    names = sorted(names)
    vm = C.VarMap(names)
    box = G.box_tl(names, -J.BOX, J.BOX)
    probs, index = [], {}

    def need(P, t):
        key = (repr(P), repr(t))
        if key not in index:
            index[key] = len(probs)
            probs.append(({v: c for v, c in t["c"]}, _tl_dict(P) + box))
        return index[key]

    plan = []
    for A, B in pairs:
        for X, Y in ((A, B), (B, A)):
            plan.append([[[need(P, t) for t in Q] for Q in Y] for P in X])
    res = J.lp_batch(probs, vm) if probs else []

    def viol(i, P_t):
        r = res[i]
        if r["status"] != "optimal":
            return False  # P empty (contained) or undecided: not a clear difference
        return Fraction(r["m"]) > P_t + J.TOL * (1 + abs(P_t))

    out = []
    it = iter(plan)
    for A, B in pairs:
        clear = False
        for X, Y in ((A, B), (B, A)):
            pl = next(it)
            for pi, P in enumerate(X):
                # P is contained in no member of Y, clearly
                if all(any(viol(pl[pi][qi][ti], C.q(t["k"])) for ti, t in enumerate(Q)) for qi, Q in enumerate(Y)):
                    clear = True
        out.append(clear)
    return out


# ------------------------------------------------------------------------------------------------
# generators


def _coef(rng: random.Random, dy: bool, wild: bool = True) -> float:
    if dy or rng.random() < 0.5:
        return float(rng.choice(G.SMALL + G.DYADIC))
    return rng.choice([rng.uniform(-5, 5), rng.choice(ODD if wild else ODD[:3] + ODD[4:6]) * rng.choice([1, -1])])


def _const(rng: random.Random, dy: bool) -> float:
    r = rng.random()
    if r < 0.3:
        return rng.choice([0.0, -0.0])
    if dy or r < 0.6:
        return float(rng.choice([-3, -2, -1, 1, 2, 5, 0.5, -0.25, 8]))
    return rng.choice([rng.uniform(-10, 10), rng.choice(ODD[:5]) * rng.choice([1, -1])])


def g_term(rng: random.Random, vs: List[str], dy: bool, maxv: int = 3, wild: bool = True) -> dict:
    k = max(rng.randint(1, min(maxv, len(vs))), rng.randint(1, min(maxv, len(vs))))
    return {"c": [[v, _coef(rng, dy, wild)] for v in rng.sample(vs, k)], "k": _const(rng, dy)}


def _ulp(x: float, rng: random.Random) -> float:
    return math.nextafter(x, math.inf if rng.random() < 0.5 else -math.inf)


def edit_term(rng: random.Random, t: dict, vs: List[str], dy: bool, which: Optional[str] = None, wild: bool = True) -> Tuple[dict, str]:
    """one single-field edit of a term spec"""
    t = {"c": [list(p) for p in t["c"]], "k": t["k"]}
    opts = ["coef", "const", "const-ulp", "coef-ulp", "zero-sign", "zero-sign", "add-zero-coef", "add-var"]
    if len(t["c"]) >= 2:
        opts += ["dict-order"] * 4 + ["drop-var"]
    e = which or rng.choice(opts)
    if e == "coef":
        i = rng.randrange(len(t["c"]))
        t["c"][i][1] = t["c"][i][1] + rng.choice([1.0, -1.0, 0.5]) or 7.0
    elif e == "coef-ulp":
        i = rng.randrange(len(t["c"]))
        t["c"][i][1] = _ulp(t["c"][i][1], rng) or 7.0
    elif e == "const":
        t["k"] = t["k"] + rng.choice([1.0, -1.0, 0.5])
    elif e == "const-ulp":
        t["k"] = _ulp(t["k"], rng)
    elif e == "zero-sign":
        t["k"] = -t["k"] if t["k"] == 0 else rng.choice([0.0, -0.0])
    elif e == "add-zero-coef":
        free = [v for v in vs if v not in [p[0] for p in t["c"]]] or ["zz"]
        t["c"].insert(rng.randint(0, len(t["c"])), [rng.choice(free), rng.choice([0.0, -0.0, 0])])
    elif e == "add-var":
        free = [v for v in vs if v not in [p[0] for p in t["c"]]] or ["zz"]
        t["c"].append([rng.choice(free), _coef(rng, dy, wild)])
    elif e == "dict-order":
        t["c"].reverse()
        if len(t["c"]) > 2 and rng.random() < 0.5:
            rng.shuffle(t["c"])
    elif e == "drop-var":
        t["c"].pop(rng.randrange(len(t["c"])))
    return t, e


def edit_tl(rng: random.Random, l: List[dict], vs: List[str], dy: bool, allow_struct: bool = True, wild: bool = True) -> Tuple[List[dict], str]:
    l = [{"c": [list(p) for p in t["c"]], "k": t["k"]} for t in l]
    opts = []
    if l:
        opts += ["term"] * 4
    if len(l) >= 2:
        opts += ["term-order"] * 2
    if allow_struct:
        opts += ["add-term"] + (["drop-term", "dup-term"] if l else [])
    e = rng.choice(opts or ["add-term"])
    if e == "term":
        i = rng.randrange(len(l))
        l[i], sub = edit_term(rng, l[i], vs, dy, wild=wild)
        return l, "term:" + sub
    if e == "term-order":
        i, j = rng.sample(range(len(l)), 2)
        l[i], l[j] = l[j], l[i]
    elif e == "add-term":
        l.append(g_term(rng, vs, dy, wild=wild))
    elif e == "drop-term":
        l.pop(rng.randrange(len(l)))
    elif e == "dup-term":
        l.append({"c": [list(p) for p in l[0]["c"]], "k": l[0]["k"]})
    return l, e


def g_contract(rng: random.Random, dy: bool) -> dict:
    vs = rng.sample(NAMES, rng.randint(2, 5))
    ni = rng.randint(1, len(vs) - 1)
    ins, outs = vs[:ni], vs[ni:]
    pt = {v: float(rng.randint(-2, 2)) for v in vs}

    def planted(names, n):
        out = []
        for _ in range(n):
            t = g_term(rng, names, dy, wild=False)
            val = sum(c * pt[v] for v, c in t["c"])
            t["k"] = float(val + rng.choice([0, 0, 1, 2, 0.5])) if dy else val + rng.uniform(0, 3)
            out.append(t)
        return out

    return {"ins": ins, "outs": outs, "a": planted(ins, rng.randint(0, 2)), "g": planted(vs, rng.randint(1, 3))}


def edit_contract(rng: random.Random, c: dict, dy: bool) -> Tuple[dict, str]:
    c = {"ins": list(c["ins"]), "outs": list(c["outs"]), "a": c["a"], "g": c["g"]}
    free = [v for v in NAMES if v not in c["ins"] + c["outs"]] or ["zz"]
    used_g = {v for t in c["g"] for v, _ in t["c"]}
    opts = ["ins-add", "outs-add", "outs-add", "outs-add", "g", "g", "a", "same", "outs-rename"]
    if len(c["ins"]) >= 2:
        opts += ["ins-perm"]
    if len(c["outs"]) >= 2:
        opts += ["outs-perm", "outs-perm"]
    if [v for v in c["outs"] if v not in used_g]:
        opts += ["outs-drop", "outs-drop"]
    e = rng.choice(opts)
    if e == "ins-add":
        c["ins"].insert(rng.randint(0, len(c["ins"])), rng.choice(free))
    elif e == "ins-perm":
        c["ins"] = c["ins"][1:] + c["ins"][:1]
    elif e == "outs-add":
        c["outs"].insert(rng.randint(0, len(c["outs"])), rng.choice(free))
    elif e == "outs-perm":
        c["outs"] = c["outs"][1:] + c["outs"][:1]
    elif e == "outs-drop":
        c["outs"].remove(rng.choice([v for v in c["outs"] if v not in used_g]))
    elif e == "outs-rename":
        unused = [v for v in c["outs"] if v not in used_g]
        if unused:
            c["outs"][c["outs"].index(unused[0])] = rng.choice(free)
        else:
            c["outs"].append(rng.choice(free))
    elif e == "g":
        c["g"], sub = edit_tl(rng, c["g"], c["ins"] + c["outs"], dy, allow_struct=False, wild=False)
        e = "g:" + sub
    elif e == "a":
        c["a"], sub = edit_tl(rng, c["a"], c["ins"], dy, allow_struct=not c["a"], wild=False)
        e = "a:" + sub
    return c, e


def _interval(v: str, lo: float, hi: float) -> List[dict]:
    return [{"c": [[v, 1.0]], "k": float(hi)}, {"c": [[v, -1.0]], "k": float(-lo)}]


def g_compound(rng: random.Random) -> dict:
    i, o = rng.sample(NAMES, 2)
    cuts = sorted(rng.sample(range(-6, 7), 4))
    a = [_interval(i, cuts[0], cuts[1])] + ([_interval(i, cuts[2], cuts[3])] if rng.random() < 0.6 else [])
    g = []
    for _ in range(rng.randint(1, 2)):
        lo = rng.randint(-4, 2)
        g.append(_interval(o, lo, lo + rng.randint(1, 3)) + ([{"c": [[o, 1.0], [i, -1.0]], "k": float(rng.randint(3, 9))}] if rng.random() < 0.4 else []))
    return {"ins": [i], "outs": [o], "a": a, "g": g}


def edit_compound(rng: random.Random, c: dict) -> Tuple[dict, str]:
    cp = lambda n: [[{"c": [list(p) for p in t["c"]], "k": t["k"]} for t in l] for l in n]  # noqa: E731
    c = {"ins": list(c["ins"]), "outs": list(c["outs"]), "a": cp(c["a"]), "g": cp(c["g"])}
    free = [v for v in NAMES if v not in c["ins"] + c["outs"]]
    opts = ["ins-add", "outs-add", "outs-add", "outs-add", "a-const", "g-const", "g-const", "same", "g-dup", "term-order", "scale"]
    if len(c["a"]) >= 2:
        opts += ["a-order"]
    if len(c["g"]) >= 2:
        opts += ["g-order"]
    e = rng.choice(opts)
    if e == "ins-add":
        c["ins"].append(rng.choice(free))
    elif e == "outs-add":
        c["outs"].insert(rng.randint(0, len(c["outs"])), rng.choice(free))
    elif e == "a-const":
        c["a"][-1][0]["k"] += 0.5   # the last interval grows upwards: stays disjoint from the others
    elif e == "g-const":
        l = rng.choice(c["g"])
        l[rng.randrange(2)]["k"] += rng.choice([0.5, 1.0])
    elif e == "g-dup":
        c["g"].append(cp([c["g"][0]])[0])
    elif e == "term-order":
        l = rng.choice(c["g"] + c["a"])
        l.reverse()
    elif e == "scale":
        t = rng.choice(rng.choice(c["g"] + c["a"]))
        f = rng.choice([2.0, 0.5, 4.0])
        t["c"] = [[v, x * f] for v, x in t["c"]]
        t["k"] *= f
    elif e == "a-order":
        c["a"].reverse()
    elif e == "g-order":
        c["g"].reverse()
    return c, e


class C19(Check):
    __doc__ = __doc__
    pid = "C19"
    title = "Equality, hashing and copying of terms, lists and contracts are coherent"
    level_text = ('Lean theorems for the executable model of PolyhedralTerm.__init__/__eq__/__str__/__hash__/copy, TermList.__eq__/copy, '
                  'PolyhedralTermList.__hash__, IoContract.__eq__/__hash__/copy, NestedTermList.__eq__, IoContractCompound.__eq__ over an abstract '
                  'number type: term/list/contract/compound equality is an equivalence (term_eq_equiv, tl_eq_equiv, contract_eq_equiv, '
                  'compound_eq_equiv), equal objects hash equally under the coherence law "equal numbers print equally" (term_eq_hash, tl_eq_hash, '
                  'contract_eq_hash) and, for the model of IEEE doubles, when the constant is printed through + 0.0 (term_eq_hash_ieee, '
                  'tl_eq_hash_ieee, fnum_coherent_ieee), copies equal their originals (copy_eq, contract_copy_eq), contract equality compares '
                  'exactly the four fields (contract_eq_iff, contract_neq_of_field, compound_eq_iff) when the source compares the output lists; '
                  'whether it does, and how the constant is printed, are constants read off the AST of __eq__/__str__ by the translator on '
                  'every run (contract_eq_spec / compound_eq_spec are unconditional); the pinned defects are proved on concrete witnesses '
                  '(contract_eq_ignores_outputs_pinned, compound_eq_ignores_outputs_pinned, ieee_not_coherent, ieee_term_witness_pinned). Tied to '
                  'the code by comparing == (both ways) and hash-equality of every ordered pair of each generated family with the model; every '
                  'case is judged on the Python objects independently of the model.')
    lean_modules = ["Pacti.Props.C19"]
    theorems = ["Pacti.C19." + t for t in (
        "term_eq_equiv", "tl_eq_equiv", "contract_eq_equiv", "term_eq_hash", "tl_eq_hash", "contract_eq_hash", "term_eq_hash_ieee",
        "tl_eq_hash_ieee", "fnum_coherent_ieee", "copy_eq", "contract_copy_eq", "mk_wf", "contract_eq_spec", "contract_eq_iff",
        "contract_neq_of_field", "contract_eq_ignores_outputs_pinned", "contract_eq_cases", "compound_eq_spec", "compound_eq_iff",
        "compound_eq_ignores_outputs_pinned", "compound_eq_equiv", "ieee_not_coherent", "ieee_term_witness_pinned", "rat_coherent",
        "rat_isEquiv")]
    quick_n = 1500
    thorough_n = 50000
    judge_sample = 10 ** 9  # the judge is cheap here: every case is judged
    trusted_base = [
        "Lean 4.33 kernel; axioms ⊆ {propext, Classical.choice, Quot.sound}",
        "hand-written model Model/Eq.lean tied to polyhedra.py / iocontract.py / compundiocontract.py by this correspondence run",
        "Gen/Consts.lean (eqComparesOutputs, eqCompoundComparesOutputs, strConstPlusZero: shapes of IoContract.__eq__, IoContractCompound.__eq__, "
        "PolyhedralTerm.__str__/__hash__, PolyhedralTermList.__hash__ read off the AST by tools/py2lean.py; any other shape is a translator error)",
        "Python's str(float) is injective on finite doubles (modelled by an injective printer on (value, sign of zero)); hash() of str / tuple is "
        "modelled as an arbitrary function in the theorems and as a collision-free one in the driver (a model-says-different / hashes-equal pair "
        "is never counted as a disagreement)",
        "refinement of term lists inside compound equality is a parameter of the theorems; the driver instantiates it with the certified-LP "
        "model of PolyhedralTermList.refines (C03)",
    ]
    assumptions = ["floats denote exact rationals plus the sign bit of zero; NaN and infinities are not generated (np.equal is not reflexive on NaN)",
                   "dicts have no repeated key; terms are built by the constructor (no zero coefficient stored)",
                   "copy-equality of contracts is asserted on small-integer / dyadic data only",
                   "the property does not ask distinct objects to hash differently"]
    min_branches = {"kind:term": 200, "kind:tl": 150, "kind:contract": 300, "kind:compound": 50, "triple": 150,
                    "pair:eq": 500, "pair:neq": 500, "pair:zero-sign-only": 40, "via:copy": 150, "via:dict": 30, "via:parse": 40,
                    "via:strings": 30, "contract:differs:outputs-only": 60, "contract:differs:inputs-only": 20,
                    "contract:differs:assumptions-only": 20, "contract:differs:guarantees-only": 60, "contract:copy-dyadic": 40,
                    "edit:dict-order": 50, "edit:term-order": 30, "compound:differs:outputs": 10}

    # ---- generation ---------------------------------------------------------------------------

    def _family(self, rng: random.Random) -> dict:
        r = rng.random()
        dy = rng.random() < 0.7
        if r < 0.25:
            kind = "term"
            vs = rng.sample(NAMES, rng.randint(1, 4))
            base = g_term(rng, vs, dy)
            objs = [{"via": "ctor", "spec": base, "edit": "base"}]
            if rng.random() < 0.12:  # the two zeros, directly
                base["k"] = rng.choice([0.0, -0.0])
                s, e = edit_term(rng, base, NAMES, dy, which="zero-sign")
                objs.append({"via": "ctor", "spec": s, "edit": e})
            for _ in range(rng.choice([1, 1, 2]) - len(objs) + 1):
                m = rng.random()
                if m < 0.15:
                    objs.append({"via": "copy", "spec": base, "edit": "copy", "of": 0})
                elif m < 0.3 and dy and abs(base["k"]) < 100:
                    objs.append({"via": "parse", "spec": base, "edit": "parse", "form": rng.choice(["le", "ge"])})
                elif m < 0.4:
                    objs.append({"via": "ctor", "spec": base, "edit": "same"})
                else:
                    s, e = edit_term(rng, base, NAMES, dy)
                    objs.append({"via": "ctor", "spec": s, "edit": e})
        elif r < 0.45:
            kind = "tl"
            vs = rng.sample(NAMES, rng.randint(1, 4))
            base = [g_term(rng, vs, dy) for _ in range(rng.randint(0, 3))]
            objs = [{"via": "ctor", "spec": base, "edit": "base"}]
            for _ in range(rng.choice([1, 1, 2])):
                m = rng.random()
                if m < 0.15:
                    objs.append({"via": "copy", "spec": base, "edit": "copy", "of": 0})
                elif m < 0.3 and dy and all(abs(t["k"]) < 100 for t in base):
                    objs.append({"via": "parse", "spec": base, "edit": "parse", "form": rng.choice(["le", "ge"])})
                elif m < 0.38:
                    objs.append({"via": "ctor", "spec": base, "edit": "same"})
                else:
                    s, e = edit_tl(rng, base, NAMES, dy)
                    objs.append({"via": "ctor", "spec": s, "edit": e})
        elif r < 0.93:
            kind = "contract"
            base = g_contract(rng, dy)
            if dy and rng.random() < 0.25:
                base["strings"] = rng.choice(["le", "ge"])
            objs = [{"via": "ctor", "spec": base, "edit": "base"}]
            for _ in range(rng.choice([1, 1, 2])):
                m = rng.random()
                if m < 0.15:
                    objs.append({"via": "copy", "spec": base, "edit": "copy", "of": 0})
                elif m < 0.22:
                    objs.append({"via": "dict", "spec": base, "edit": "dict", "of": 0})
                elif m < 0.27 and dy:
                    objs.append({"via": "str", "spec": base, "edit": "str", "of": 0})
                elif m < 0.33 and dy:
                    s = dict(base)
                    s["strings"] = None if base.get("strings") else rng.choice(["le", "ge"])
                    objs.append({"via": "ctor", "spec": s, "edit": "strings-vs-objects"})
                else:
                    s, e = edit_contract(rng, base, dy)
                    objs.append({"via": "ctor", "spec": s, "edit": e})
        else:
            kind = "compound"
            base = g_compound(rng)
            objs = [{"via": "ctor", "spec": base, "edit": "base"}]
            for _ in range(rng.choice([1, 1, 1, 2])):
                s, e = edit_compound(rng, base)
                objs.append({"via": "ctor", "spec": s, "edit": e})
        return {"kind": kind, "dyadic": dy, "objs": objs}

    def generate(self, rng, n, tier):
        return [self._family(rng) for _ in range(n)]

    # ---- implementation -----------------------------------------------------------------------

    def run_impl(self, case):
        kind = case["kind"]
        built, real = [], []
        for o in case["objs"]:
            try:
                x = build(kind, o)
                built.append(x)
                real.append(realise(kind, x))
            except Exception as e:  # noqa
                built.append(None)
                real.append({"err": C.classify_exc(e), "msg": str(e)[:200]})
        n = len(built)
        eq = [[None] * n for _ in range(n)]
        hs: List[Any] = []
        raw: List[Any] = []
        for x in built:
            if x is None:
                hs.append(None)
                raw.append(object())
                continue
            try:
                h = hash(x)
                raw.append(h)
                hs.append(raw.index(h))  # class index, not the value: str hashes are salted per process
            except TypeError:
                raw.append(object())
                hs.append("unhashable")
        for i in range(n):
            for j in range(n):
                if built[i] is None or built[j] is None:
                    continue
                try:
                    eq[i][j] = bool(built[i] == built[j])
                except Exception as e:  # noqa
                    eq[i][j] = "raise:" + C.classify_exc(e)
        out = {"objs": real, "eq": eq, "hash": hs}
        if kind in ("term", "tl"):
            cp = []
            for x in built:
                if x is None:
                    cp.append(None)
                    continue
                y = x.copy()
                cp.append([bool(x == y), bool(y == x), hash(x) == hash(y)])
            out["copy"] = cp
        if kind in ("term", "tl", "contract"):
            # objects derived from an object that HAS BEEN hashed (above) against the same derivation of a freshly built, never
            # hashed twin: equal fields, so they must compare equal and hash alike (a hash memoised on the source and carried
            # along by copy() shows here and nowhere else)
            from pacti.iocontract import Var
            dv = []
            for x, o in zip(built, case["objs"]):
                if x is None:
                    dv.append(None)
                    continue
                try:
                    names = [str(v) for v in (x.vars if kind != "contract" else x.inputvars + x.outputvars)]
                    if not names:
                        dv.append(None)
                        continue
                    src = Var(sorted(names)[0])
                    twin = build(kind, o)
                    y, z = x.rename_variable(src, Var("zz9")), twin.rename_variable(src, Var("zz9"))
                    rec = [bool(y == z), bool(z == y), hash(y) == hash(z)]
                    if kind == "term":
                        y2, z2 = x.remove_variable(src), twin.remove_variable(src)
                        rec += [bool(y2 == z2), hash(y2) == hash(z2)]
                    dv.append(rec)
                except Exception as e:  # noqa: BLE001
                    dv.append({"err": C.classify_exc(e)})
            out["derived"] = dv
        if kind in ("contract", "compound"):
            # field-wise comparisons as pacti itself makes them (reported in replays; the judge does not rely on them)
            fw = {}
            for i in range(n):
                for j in range(n):
                    if built[i] is None or built[j] is None or i == j:
                        continue
                    try:
                        fw[f"{i},{j}"] = [bool(built[i].inputvars == built[j].inputvars), bool(built[i].outputvars == built[j].outputvars)]
                        if kind == "contract":  # (compound: a == b is a batch of LPs; not repeated here)
                            fw[f"{i},{j}"] += [bool(built[i].a == built[j].a), bool(built[i].g == built[j].g)]
                    except Exception as e:  # noqa
                        fw[f"{i},{j}"] = "raise:" + C.classify_exc(e)
            out["fieldwise"] = fw
        return out

    # ---- model --------------------------------------------------------------------------------

    @staticmethod
    def _num(x: float) -> Tuple[str, bool]:
        return C.qs(x), (x == 0 and math.copysign(1.0, x) < 0)

    def _w_term(self, t: dict, vm: C.VarMap) -> dict:
        cs = []
        for v, c in t["c"]:
            s, z = self._num(float(c))
            cs.append([vm.i(v), s, True] if z else [vm.i(v), s])
        s, z = self._num(float(t["k"]))
        return {"c": cs, "k": s, "kz": z}

    def _w_obj(self, kind: str, r: Any, vm: C.VarMap) -> Any:
        if kind == "term":
            return self._w_term(r, vm)
        if kind == "tl":
            return [self._w_term(t, vm) for t in r]
        if kind == "contract":
            return {"ins": vm.vars(r["ins"]), "outs": vm.vars(r["outs"]), "a": self._w_obj("tl", r["a"], vm), "g": self._w_obj("tl", r["g"], vm)}
        return {"ins": vm.vars(r["ins"]), "outs": vm.vars(r["outs"]), "a": [self._w_obj("tl", l, vm) for l in r["a"]],
                "g": [self._w_obj("tl", l, vm) for l in r["g"]]}

    @staticmethod
    def _names(x: Any, acc: set) -> None:
        if isinstance(x, dict):
            for k, v in x.items():
                if k in ("ins", "outs"):
                    acc.update(v)
                elif k == "c":
                    acc.update(p[0] for p in v)
                else:
                    C19._names(v, acc)
        elif isinstance(x, list):
            for y in x:
                C19._names(y, acc)

    def model_request(self, case, impl):
        if "objs" not in impl or any(isinstance(r, dict) and "err" in r for r in impl["objs"]):
            return None
        kind = case["kind"]
        # term / tl objects made by the constructor go to the model as the constructor's *arguments* (zero coefficients
        # included: the model's constructor drops them); everything else as the realised object
        srcs = []
        for o, r in zip(case["objs"], impl["objs"]):
            srcs.append(o["spec"] if (kind in ("term", "tl") and o["via"] == "ctor") else r)
        acc: set = set()
        self._names(srcs, acc)
        vm = C.VarMap(acc)
        return {"op": "eq_matrix", "kind": kind, "objs": [self._w_obj(kind, s, vm) for s in srcs]}

    def compare(self, case, impl, model):
        if "err" in model:
            return f"model error {model['err']}"
        m = model["ok"]
        n = len(case["objs"])
        for i in range(n):
            for j in range(n):
                me, ie = m["eq"][i][j], impl["eq"][i][j]
                if me is None:
                    continue  # a refinement inside the tolerance band: either answer
                if me != ie:
                    return f"objects {i},{j} ({case['objs'][i]['edit']} / {case['objs'][j]['edit']}): impl == gives {ie}, model {me}"
                if "heq" in m and m["heq"][i][j] and impl["hash"][i] != impl["hash"][j]:
                    return f"objects {i},{j}: the model's hashes are equal, the implementation's differ"
        if "copy" in m:
            for i in range(n):
                mc, ic = m["copy"][i], impl["copy"][i]
                if mc[0] != ic[0] or mc[1] != ic[1] or (mc[2] and not ic[2]):
                    return f"object {i}: copy: impl {ic}, model {mc}"
        return None

    # ---- judge (independent of the model) -----------------------------------------------------

    def judge(self, case, impl):
        kind = case["kind"]
        if "objs" not in impl:
            return {"signature": "harness:" + str(impl.get("err")), "what": str(impl)[:600], "witness": case, "infra": True}
        objs, real, eq, hs = case["objs"], impl["objs"], impl["eq"], impl["hash"]
        n = len(objs)
        ok = [not (isinstance(r, dict) and "err" in r) for r in real]

        def wit(i, j, **kw):
            w = {"kind": kind, "i": i, "j": j, "how_i": {k: v for k, v in objs[i].items() if k != "spec"},
                 "how_j": {k: v for k, v in objs[j].items() if k != "spec"}, "object_i": _bits(real[i]) if ok[i] else real[i],
                 "object_j": _bits(real[j]) if ok[j] else real[j], "object_i_readable": real[i], "object_j_readable": real[j],
                 "eq_ij": eq[i][j], "eq_ji": eq[j][i], "hash_i": hs[i], "hash_j": hs[j]}
            w.update(kw)
            return w

        # a copy / round trip of an object that could be built must itself be buildable
        for j, o in enumerate(objs):
            if "of" in o and ok[o["of"]] and not ok[j] and o["via"] == "copy" and (kind != "contract" or case["dyadic"]):
                return {"signature": "copy:raises", "what": f"{kind}.copy() raised {real[j]}", "witness": wit(o["of"], j)}
        for i in range(n):
            for j in range(n):
                if ok[i] and ok[j] and isinstance(eq[i][j], str):
                    return {"signature": "eq:raises", "what": f"== of two {kind}s raised {eq[i][j]}", "witness": wit(i, j)}
        # 1. contracts that differ in a field compare unequal
        if kind == "contract":
            for i in range(n):
                for j in range(n):
                    if i != j and ok[i] and ok[j] and eq[i][j] is True:
                        d = contract_diffs(real[i], real[j])
                        if d:
                            return {"signature": "eq:ignores-" + "+".join(d),
                                    "what": f"two contracts that differ in their {' and '.join(d)} compare equal (IoContract.__eq__)",
                                    "witness": wit(i, j, differs_in=d, pacti_fieldwise=impl.get("fieldwise", {}).get(f"{i},{j}"))}
        if kind == "compound":
            pairs, idx = [], []
            for i in range(n):
                for j in range(i + 1, n):
                    if ok[i] and ok[j] and (eq[i][j] is True or eq[j][i] is True):
                        d = [f for f, k in (("inputs", "ins"), ("outputs", "outs")) if real[i][k] != real[j][k]]
                        if d:
                            return {"signature": "eq:compound-ignores-" + "+".join(d),
                                    "what": f"two compound contracts that differ in their {' and '.join(d)} compare equal (IoContractCompound.__eq__)",
                                    "witness": wit(i, j, differs_in=d, pacti_fieldwise=impl.get("fieldwise", {}).get(f"{i},{j}"))}
                        for f in ("a", "g"):
                            pairs.append((real[i][f], real[j][f]))
                            idx.append((i, j, f))
            if pairs:
                for (i, j, f), clear in zip(idx, nested_clearly_differ(pairs)):
                    if clear:
                        nm = "assumptions" if f == "a" else "guarantees"
                        return {"signature": "eq:compound-ignores-" + nm,
                                "what": f"two compound contracts whose {nm} denote different families of polyhedra compare equal",
                                "witness": wit(i, j, differs_in=[nm])}
        # 2. symmetry
        for i in range(n):
            for j in range(i + 1, n):
                if ok[i] and ok[j] and eq[i][j] != eq[j][i]:
                    return {"signature": "eq:not-symmetric", "what": f"x == y is {eq[i][j]} but y == x is {eq[j][i]} ({kind})", "witness": wit(i, j)}
        # 3. transitivity
        for i in range(n):
            for j in range(n):
                for k in range(n):
                    if len({i, j, k}) == 3 and ok[i] and ok[j] and ok[k] and eq[i][j] is True and eq[j][k] is True and eq[i][k] is not True:
                        return {"signature": "eq:not-transitive", "what": f"x == y and y == z but not x == z ({kind})", "witness": wit(i, k, middle=_bits(real[j]))}
        # 4. copies
        for j, o in enumerate(objs):
            if o["via"] == "copy" and ok[j] and ok[o["of"]] and (kind != "contract" or case["dyadic"]):
                i = o["of"]
                if eq[i][j] is not True or eq[j][i] is not True:
                    return {"signature": "copy:not-equal", "what": f"a copy of a {kind} does not compare equal to its original", "witness": wit(i, j)}
                if hs[i] != hs[j]:
                    sig = "copy:different-hash" + (":signed-zero" if only_zero_sign(kind, real[i], real[j]) else "")
                    return {"signature": sig, "what": f"a copy of a {kind} hashes differently from its original", "witness": wit(i, j)}
        if "copy" in impl:
            for i, cp in enumerate(impl["copy"]):
                if cp is not None and cp != [True, True, True]:
                    return {"signature": "copy:not-equal" if not (cp[0] and cp[1]) else "copy:different-hash",
                            "what": f"x == x.copy(), x.copy() == x, hash(x) == hash(x.copy()) is {cp} for a {kind}", "witness": wit(i, i)}
        # 4b. the same derivation of a hashed object and of its never-hashed twin: equal, and equal hashes
        for i, rec in enumerate(impl.get("derived") or []):
            if isinstance(rec, list) and not all(rec):
                what = "compare unequal" if not (rec[0] and rec[1] and (len(rec) < 4 or rec[3])) else "are equal but hash differently"
                return {"signature": "eq-hash:derived-after-hashing", "what": f"renaming / removing a variable in a {kind} that has been hashed and in a freshly built equal {kind}: the results {what} ({rec})",
                        "witness": wit(i, i)}
        # 5. equal objects have equal hashes
        for i in range(n):
            for j in range(i + 1, n):
                if ok[i] and ok[j] and (eq[i][j] is True or eq[j][i] is True) and hs[i] != hs[j] and "unhashable" not in (hs[i], hs[j]):
                    if only_zero_sign(kind, real[i], real[j]):
                        return {"signature": "eq-hash:signed-zero",
                                "what": f"two equal {kind}s that differ only in the sign of a zero (0.0 vs -0.0) have different hashes", "witness": wit(i, j)}
                    return {"signature": "eq-hash:equal-but-different-hash", "what": f"two equal {kind}s have different hashes", "witness": wit(i, j)}
        return None

    # ---- statistics ---------------------------------------------------------------------------

    def branch(self, case, impl, model):
        kind = case["kind"]
        b = ["kind:" + kind]
        if "objs" not in impl:
            return b + ["harness-error"]
        real, eq = impl["objs"], impl["eq"]
        n = len(real)
        ok = [not (isinstance(r, dict) and "err" in r) for r in real]
        if not all(ok):
            b.append("build-error")
        if n == 3 and all(ok):
            b.append("triple")
        for o in case["objs"]:
            if o["via"] != "ctor":
                b.append("via:" + o["via"])
            if isinstance(o["spec"], dict) and o["spec"].get("strings"):
                b.append("via:strings")
            e = o["edit"].split(":")[-1]
            if e in ("dict-order", "term-order"):
                b.append("edit:" + e)
        for i in range(n):
            for j in range(i + 1, n):
                if not (ok[i] and ok[j]):
                    continue
                b.append("pair:eq" if eq[i][j] is True else "pair:neq")
                if only_zero_sign(kind, real[i], real[j]):
                    b.append("pair:zero-sign-only")
                if kind == "contract":
                    d = contract_diffs(real[i], real[j])
                    if len(d) == 1:
                        b.append(f"contract:differs:{d[0]}-only")
                    elif not d:
                        b.append("contract:same-fields")
                    if case["dyadic"] and "copy" in (case["objs"][i]["via"], case["objs"][j]["via"]) and i == 0:
                        b.append("contract:copy-dyadic")
                if kind == "compound" and real[i]["outs"] != real[j]["outs"]:
                    b.append("compound:differs:outputs")
        if model and "ok" in model and any(x is None for row in model["ok"]["eq"] for x in row):
            b.append("gray")
        return b

    def extra(self, tier, rng):
        """which of the conditional theorems are live for the source as it is now (read from the generated constants)"""
        import os
        import re

        txt = open(os.path.join(C.LEAN_DIR, "Pacti", "Gen", "Consts.lean")).read()
        vals = {k: (v == "true") for k, v in re.findall(r"def (eqComparesOutputs|eqCompoundComparesOutputs|strConstPlusZero) : Bool := (true|false)", txt)}
        live = {
            "contract_eq_iff / contract_neq_of_field / contract_eq_hash (full statement)": vals.get("eqComparesOutputs"),
            "contract_eq_ignores_outputs_pinned (counterexample)": not vals.get("eqComparesOutputs"),
            "compound_eq_iff (full statement)": vals.get("eqCompoundComparesOutputs"),
            "compound_eq_ignores_outputs_pinned (counterexample)": not vals.get("eqCompoundComparesOutputs"),
            "term_eq_hash_ieee / tl_eq_hash_ieee (doubles)": vals.get("strConstPlusZero"),
            "ieee_term_witness_pinned (counterexample)": not vals.get("strConstPlusZero"),
        }
        return [], {"source_shape": vals, "conditional_theorems_live": live}

    def nontrivial(self, case, impl):
        return "objs" in impl and not any(isinstance(r, dict) and "err" in r for r in impl["objs"])


CHECK = C19()
