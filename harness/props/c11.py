"""C11: cases = (a) contains_behavior on lists with dyadic coefficients and behaviours placed on, 2^-20 inside and
2^-20 outside a chosen constraint boundary, plus missing / extra variables; (b) is_empty on feasible, infeasible and
thin (margin 1e-3) systems; (c) the triple contains(l,b) & refines(l,r) => contains(r,b).  Non-trivial = the list has
>= 1 term and the case is not a duplicate."""
from __future__ import annotations

import random
from fractions import Fraction
from typing import List, Optional

from .. import common as C
from .. import gen as G
from .. import judge as J
from ..framework import Check


class C11(Check):
    pid = "C11"
    title = "Behaviour membership and emptiness agree with exact arithmetic"
    level_text = 'Lean theorems contains_iff / contains_false_iff / contains_err_iff / isEmpty_iff / contains_mono about the executable model of evaluate, contains_behavior and is_empty (all lists — isEmpty_iff also for rows without variables since fix 0e454c1, whose presence is read off the source: Gen.emptyNoColsBySign —, all behaviours, any certified LP oracle), tied to polyhedra.py by an exact Boolean/error-kind correspondence on boundary, inside and outside points and on feasible/infeasible/thin systems; failing-input search by exact rational evaluation and certified LP.'
    lean_modules = ["Pacti.Props.C11"]
    theorems = ["Pacti.C11.contains_iff", "Pacti.C11.contains_false_iff", "Pacti.C11.contains_err_iff", "Pacti.C11.isEmpty_iff", "Pacti.C11.contains_mono"]
    quick_n = 3000
    thorough_n = 120000
    trusted_base = [
        "Lean 4.33 kernel; axioms ⊆ {propext, Classical.choice, Quot.sound}",
        "hand-written model Pacti/Model/Poly.lean (evaluate, containsBehavior, polyEmpty) tied to polyhedra.py by this correspondence run",
        "Gen/Lists.lean regenerated from utils/lists.py by tools/py2lean.py",
        "scipy linprog (HiGHS) is an oracle: the model's LP answers come from an unverified exact simplex and pass the proved certificate checker; that HiGHS agrees is measured here, not proved",
        "harness: generators, exact comparison of Booleans / error kinds",
    ]
    assumptions = ["floats denote the exact rationals they are; behaviours are dyadic so float evaluation is exact",
                   "the property's range is lists whose terms mention a variable; emptiness is also exercised (and isEmpty_iff holds) on rows without variables since fix 0e454c1"]
    min_branches = {"contains:true": 50, "contains:false": 50, "contains:ValueError": 10, "empty:true": 20, "empty:false": 20, "mono": 20}

    def generate(self, rng: random.Random, n: int, tier: str) -> List[dict]:
        out = []
        if tier == "thorough":
            # bounded-exhaustive: every list of one or two rows over (a, b) with coefficients and constants in {-1, 0, 1}: emptiness,
            # and membership of every point of the grid {-1, 0, 1}^2 (on, inside and outside every boundary)
            for l in G.grid_lists(G.grid_rows(), 2):
                out.append({"kind": "is_empty", "terms": l, "tag": "grid"})
                for x in (-1.0, 0.0, 1.0):
                    for y in (-1.0, 0.0, 1.0):
                        out.append({"kind": "contains", "terms": [dict(c=dict(t["c"]), k=t["k"]) for t in l], "beh": {"a": x, "b": y}, "tag": "grid"})
        for i in range(n):
            r = rng.random()
            vs = G.VARS[: rng.randint(1, 4)]
            if r < 0.55:
                tl = G.rtl(rng, vs, rng.randint(1, 4), coeffs=G.DYADIC)
                beh = {v: float(rng.randint(-4, 4)) for v in vs}
                # move onto / around a boundary of one term
                t = rng.choice(tl)
                x = rng.choice(list(t["c"]))
                rest = sum(c * beh[v] for v, c in t["c"].items() if v != x)
                beh[x] = (t["k"] - rest) / t["c"][x]
                beh[x] += rng.choice([0.0, 2.0 ** -20, -(2.0 ** -20), 1.0, -1.0])
                mode = rng.random()
                if mode < 0.08 and len(beh) > 0:
                    beh.pop(rng.choice(list(beh)))
                elif mode < 0.16:
                    beh["zz"] = 1.0
                out.append({"kind": "contains", "terms": tl, "beh": beh})
            elif r < 0.8:
                m = rng.random()
                if m < 0.4:
                    tl = G.feasible_tl(rng, vs, rng.randint(1, 5))
                elif m < 0.7:
                    tl = G.rtl(rng, vs, rng.randint(2, 6))
                else:
                    # thin: t and its opposite with margin ±1e-3
                    t = G.rterm(rng, vs)
                    margin = rng.choice([1e-3, -1e-3, 0.0, 0.5, -0.5])
                    tl = [t, {"c": {v: -c for v, c in t["c"].items()}, "k": -t["k"] + margin}] + G.rtl(rng, vs, rng.randint(0, 2))
                    rng.shuffle(tl)
                    if rng.random() < 0.35:
                        # the same thin band far from the origin: margins of 2^-9 (≈ 2e-3) at constants up to 8192 — an allowance that
                        # grows with the constants must not swallow them
                        big = float(rng.choice([256, 1024, 4096, 8192])) * rng.choice([1.0, -1.0])
                        gap = rng.choice([2.0 ** -9, -(2.0 ** -9), 2.0 ** -8, 0.0])
                        tl = [dict(c=dict(t["c"]), k=big), {"c": {v: -c for v, c in t["c"].items()}, "k": -big + gap}] + G.rtl(rng, vs, rng.randint(0, 1))
                        rng.shuffle(tl)
                if rng.random() < 0.06:
                    # rows without variables (`0 <= k`; beyond the property's stated range, inside the theorem's since the repair of
                    # is_polytope_empty 0e454c1): alone (a matrix without columns) or mixed into a list with variables
                    free = [{"c": {}, "k": float(k)} for k in dict.fromkeys(rng.choice([-2, -1, -0.5, 0, 1, 3]) for _r in range(rng.randint(1, 2)))]
                    tl = free if rng.random() < 0.5 else free + tl
                    rng.shuffle(tl)
                    out.append({"kind": "is_empty", "terms": tl, "tag": "varfree"})
                    continue
                out.append({"kind": "is_empty", "terms": tl})
            else:
                pt = {v: float(rng.randint(-3, 3)) for v in vs}
                l = G.feasible_tl(rng, vs, rng.randint(1, 3), point=pt, coeffs=G.DYADIC)
                # r: weakenings / combinations of l, sometimes unrelated
                rr = []
                for _ in range(rng.randint(1, 3)):
                    if rng.random() < 0.75:
                        ws = [float(rng.choice([0, 1, 2])) for _ in l]
                        if not any(ws):
                            ws[0] = 1.0
                        t = G.add_terms(l, ws, extra=float(rng.choice([0, 0, 1])))
                        if t["c"]:
                            rr.append(t)
                    else:
                        rr.append(G.rterm(rng, vs, coeffs=G.DYADIC))
                if not rr:
                    rr = [l[0]]
                out.append({"kind": "mono", "lhs": l, "rhs": rr, "beh": pt})
        return out

    def run_impl(self, case: dict) -> dict:
        from pacti.iocontract import Var

        if case["kind"] == "contains":
            tl = G.mk_tl(case["terms"])
            return {"ok": bool(tl.contains_behavior({Var(k): v for k, v in case["beh"].items()}))}
        if case["kind"] == "is_empty":
            return {"ok": bool(G.mk_tl(case["terms"]).is_empty())}
        l, r = G.mk_tl(case["lhs"]), G.mk_tl(case["rhs"])
        b = {Var(k): v for k, v in case["beh"].items()}
        return {"ok": [bool(l.contains_behavior(b)), bool(l.refines(r)), bool(r.contains_behavior(b))]}

    def model_request(self, case: dict, impl: dict) -> Optional[dict]:
        if case["kind"] == "contains":
            vm = C.VarMap(G.names_of(case["terms"]) + list(case["beh"]))
            return {"op": "contains", "terms": G.w_tl(case["terms"], vm), "beh": [[vm.i(k), C.qs(v)] for k, v in case["beh"].items()]}
        if case["kind"] == "is_empty":
            vm = C.VarMap(G.names_of(case["terms"]))
            return {"op": "is_empty", "terms": G.w_tl(case["terms"], vm)}
        vm = C.VarMap(G.names_of(case["lhs"], case["rhs"]) + list(case["beh"]))
        return {"op": "mono", "lhs": G.w_tl(case["lhs"], vm), "rhs": G.w_tl(case["rhs"], vm),
                "beh": [[vm.i(k), C.qs(v)] for k, v in case["beh"].items()]}

    def compare(self, case, impl, model) -> Optional[str]:
        if "err" in impl or "err" in model:
            if impl.get("err") == model.get("err"):
                return None
            return f"impl {impl.get('err', impl.get('ok'))} vs model {model.get('err', model.get('ok'))}"
        if case["kind"] == "mono":
            mo = model["ok"]
            im = impl["ok"]
            # the refinement verdict itself is C03's business; here: the two membership answers, and
            # consistency (contains ∧ refines ⇒ contains) is judged on the implementation's own answers
            if im[0] != mo[0] or im[2] != mo[2]:
                return f"impl {im} vs model {mo}"
            return None
        return None if impl["ok"] == model["ok"] else f"impl {impl['ok']} vs model {model['ok']}"

    def judge(self, case, impl) -> Optional[dict]:
        if case["kind"] == "contains":
            names = G.names_of(case["terms"])
            missing = [v for v in names if v not in case["beh"]]
            if missing:
                if impl.get("err") != "ValueError":
                    return {"signature": "contains:unassigned-not-ValueError", "what": f"unassigned {missing}, got {impl}", "witness": case}
                return None
            pt = {k: C.q(v) for k, v in case["beh"].items()}
            truth = all(G.holds_exact(t, pt) for t in case["terms"])
            if impl.get("ok") is not truth:
                return {"signature": "contains:wrong-answer", "what": f"contains_behavior returned {impl} but exact evaluation says {truth}", "witness": case}
            return None
        if case["kind"] == "is_empty":
            feas, pt = J.feasible(case["terms"])
            if feas is None:
                return None
            if impl.get("ok") is not (not feas):
                return {"signature": "is_empty:wrong-answer", "what": f"is_empty returned {impl}, exact feasibility is {feas}", "witness": J.pt_str(pt)}
            return None
        if "ok" in impl:
            a, r, b = impl["ok"]
            if a and r and not b:
                return {"signature": "contains-refines-inconsistent", "what": "b ∈ l, l refines r, but b ∉ r", "witness": case}
        elif impl.get("err") not in C.DOCUMENTED:
            return {"signature": "undocumented-exception", "what": str(impl), "witness": case}
        return None

    def branch(self, case, impl, model):
        if case["kind"] == "contains":
            return ["contains:" + str(impl.get("err", impl.get("ok"))).lower().replace("valueerror", "ValueError")]
        if case["kind"] == "is_empty":
            return ["empty:" + str(impl.get("err", impl.get("ok"))).lower()]
        return ["mono"] + (["mono:all-true"] if impl.get("ok") == [True, True, True] else [])

    def nontrivial(self, case, impl):
        return len(case.get("terms", case.get("lhs", []))) >= 1


CHECK = C11()
