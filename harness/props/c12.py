"""C12: satisfiable and unsatisfiable polyhedral contracts over <= 5 variables (bounded boxes, half-bounded and
unbounded regions, thin regions, contracts with no constraints at all), objectives with <= 3 small-integer
coefficients including variables absent from the contract, both directions, and get_variable_bounds.  The optimum is
compared with the exact rational LP optimum (1e-6 relative); None / ValueError exactly.  Non-trivial = the contract has
at least one constraint."""
from __future__ import annotations

import random
from fractions import Fraction
from typing import Optional

from .. import common as C
from .. import contracts as K
from .. import gen as G
from .. import judge as J
from ..framework import Check


def render_obj(obj: dict) -> str:
    parts = []
    for i, (v, c) in enumerate(obj.items()):
        c = int(c)
        sign = "-" if c < 0 else ("+" if i else "")
        mag = "" if abs(c) == 1 else str(abs(c))
        parts.append((sign + " " if i else sign) + mag + v)
    return " ".join(parts)


class C12(Check):
    pid = "C12"
    title = "Optimisation over a contract returns the true optimum, None iff unbounded"
    level_text = ("Lean theorems contract_optimize_some / _none / _err / contract_bounds_enclose (PolyhedralIoContract.optimize / get_variable_bounds over the behaviours of assumptions together with guarantees; the model forms a | g with the generated list_union) and optimize_some / optimize_none / optimize_err / bounds_enclose for the model of PolyhedralTermList.optimize (status mapping "
                  "0 -> value, 3 -> None, 2 -> ValueError, with the emptiness re-check on status 2) (optimize_none / contract_optimize_none without the former Proper hypothesis: the excluded point was the defect repaired by 0e454c1, whose presence is read off the source) over any certified LP oracle, including a second oracle class in which "
                  "an unbounded feasible problem may be reported `infeasible` (what HiGHS' presolve does); correspondence of value / None / ValueError with the exact optimum.")
    lean_modules = ["Pacti.Props.C12"]
    theorems = ["Pacti.C12.optimize_some", "Pacti.C12.optimize_none", "Pacti.C12.optimize_err", "Pacti.C12.bounds_enclose", "Pacti.C12.contract_optimize_some", "Pacti.C12.contract_optimize_none", "Pacti.C12.contract_optimize_err", "Pacti.C12.contract_bounds_enclose", "Pacti.C12.certified_is_ambiguous"]
    quick_n = 1200
    thorough_n = 40000
    judge_sample = 300
    trusted_base = [
        "Lean 4.33 kernel; axioms ⊆ {propext, Classical.choice, Quot.sound}",
        "Model/Poly.lean (optimize) tied to polyhedra.py / polyhedral_iocontract.py by this correspondence run; the objective string is parsed by the implementation (C09 covers the parser)",
        "HiGHS is an oracle (certificate-checked exact simplex on the model side); its status for unbounded problems is observed, not trusted",
    ]
    assumptions = ["floats denote exact rationals; optimum compared within 1e-6 relative"]
    min_branches = {"value": 300, "None": 150, "ValueError": 60, "bounds": 100, "varfree": 4}

    def generate(self, rng, n, tier):
        out = []
        if tier == "thorough":
            # bounded-exhaustive: every guarantee list of one or two rows over (i input, o output) with coefficients and constants in
            # {-1, 0, 1}, each coordinate objective in both directions (bounded, unbounded, infeasible, degenerate)
            for l in G.grid_lists(G.grid_rows(vs=("i", "o")), 2):
                for v in ("i", "o"):
                    for mx in (True, False):
                        out.append({"kind": "opt", "c": {"ins": ["i"], "outs": ["o"], "a": [], "g": [dict(c=dict(t["c"]), k=t["k"]) for t in l]},
                                    "obj": {v: 1.0}, "max": mx, "tag": "grid"})
        # contracts all of whose rows are variable-free (`0 <= k`, reachable as "x - x <= k", by renaming x to y in `x - y <= k`, or from
        # a dictionary), unsatisfiable when some k < 0: outside C11's range (its quantifier excludes such terms), inside C12's
        for _ in range(max(6, n // 200)):
            ks = [float(rng.choice([-2, -1, -0.5, 0, 1, 3])) for _r in range(rng.randint(1, 3))]
            rows = [{"c": {}, "k": k} for k in dict.fromkeys(ks)]
            side = rng.random() < 0.5
            c = {"a": rows if side else [], "g": [] if side else rows, "ins": ["i"], "outs": ["o"]}
            if rng.random() < 0.25:
                out.append({"kind": "bounds", "c": c, "var": rng.choice(["i", "o"]), "tag": "varfree"})
            else:
                out.append({"kind": "opt", "c": c, "obj": {rng.choice(["i", "o"]): float(rng.choice([-2, 1, 3]))}, "max": rng.random() < 0.5, "tag": "varfree"})
        for _ in range(n):
            vs = ["i", "j", "o", "p", "q"][: rng.randint(1, 5)]
            ins = vs[: max(1, len(vs) // 2)]
            outs = vs[len(ins):]
            pt = {v: float(rng.randint(-3, 3)) for v in vs}
            m = rng.random()
            a = K.bound_terms(rng, ins, pt, rng.randint(0, 2))
            g = K.rel_terms(rng, vs, outs or ins, pt, rng.randint(0, 3))
            if m < 0.35:
                g += G.box_tl(vs, -rng.randint(1, 4), rng.randint(1, 4))      # bounded
            elif m < 0.5:
                g += G.box_tl(vs, -3, 3)[:: 2]                                # upper bounds only
            elif m < 0.6:
                t = rng.choice(g) if g else {"c": {vs[0]: 1.0}, "k": 0.0}
                g = g + [{"c": {v: -x for v, x in t["c"].items()}, "k": -t["k"] - rng.choice([1.0, 0.5, 1e-3])}]   # infeasible
            elif m < 0.66:
                a, g = [], []                                                 # no constraints at all
            elif m < 0.72:
                t = {"c": {vs[0]: 1.0}, "k": 1.0}
                g = g + [t, {"c": {vs[0]: -1.0}, "k": -1.0 + rng.choice([0.0, 1e-3])}]   # thin
            elif m < 0.86:
                # raw random systems with zero entries and non-negative right-hand sides (origin feasible): the shapes on
                # which the solver's presolve reports "infeasible or unbounded" for an unbounded problem
                a = []
                g = []
                for _r in range(rng.randint(1, 4)):
                    row = {v: float(rng.randint(-2, 2)) for v in vs}
                    row = {v: x for v, x in row.items() if x != 0}
                    if row:
                        g.append({"c": row, "k": float(rng.randint(0, 4))})
            a = [t for t in a if set(t["c"]) <= set(ins)]
            allv = vs + ["zz"]
            k = rng.randint(1, 3)
            obj = {v: float(rng.choice([-3, -2, -1, 1, 2, 3])) for v in rng.sample(allv if rng.random() < 0.15 else vs, min(k, len(vs)))}
            c = {"a": a, "g": g, "ins": ins, "outs": outs}
            if rng.random() < 0.2:
                out.append({"kind": "bounds", "c": c, "var": rng.choice(vs)})
            else:
                out.append({"kind": "opt", "c": c, "obj": obj, "max": rng.random() < 0.5})
        return out

    def run_impl(self, case):
        c = G.mk_contract(case["c"], simplify=False)
        if case["kind"] == "bounds":
            lo, hi = c.get_variable_bounds(case["var"])
            return {"ok": [None if lo is None else float(lo), None if hi is None else float(hi)]}
        r = c.optimize(render_obj(case["obj"]), maximize=case["max"])
        return {"ok": None if r is None else float(r)}

    def model_request(self, case, impl):
        c = case["c"]
        names = K.all_names(c) + (list(case["obj"]) if case["kind"] == "opt" else [case["var"]])
        vm = C.VarMap(names)
        # contract-level ops: the model itself forms `a | g` (generated list_union)
        if case["kind"] == "bounds":
            return {"op": "bounds_c", "c1": K.w_contract(c, vm), "var": vm.i(case["var"])}
        return {"op": "optimize_c", "c1": K.w_contract(c, vm), "obj": [[vm.i(v), C.qs(x)] for v, x in case["obj"].items()], "max": case["max"]}

    @staticmethod
    def _same(a, b):
        if a is None or b is None:
            return a is None and b is None
        fb = float(Fraction(b))
        return abs(a - fb) <= 1e-6 * max(1.0, abs(fb))

    def compare(self, case, impl, model):
        if "err" in impl or "err" in model:
            return None if impl.get("err") == model.get("err") else f"impl {impl.get('err', impl.get('ok'))} vs model {model.get('err', model.get('ok'))}"
        if case["kind"] == "bounds":
            ok = self._same(impl["ok"][0], model["ok"][0]) and self._same(impl["ok"][1], model["ok"][1])
        else:
            ok = self._same(impl["ok"], model["ok"])
        return None if ok else f"impl {impl['ok']} vs model {model['ok']}"

    def _truth(self, c, obj, mx):
        cs = _union(c["a"], c["g"])
        feas, _ = J.feasible(cs) if cs else (True, None)
        if not feas:
            return "ValueError", None
        o = obj if mx else {v: -x for v, x in obj.items()}
        if not cs:
            return ("None", None) if any(x != 0 for x in o.values()) else ("value", Fraction(0))
        st, m, _ = J.exact_max(o, cs)
        if st == "unbounded":
            return "None", None
        return "value", (m if mx else -m)

    def judge(self, case, impl):
        c = case["c"]
        probs = [(case["obj"], case["max"], impl.get("ok"))] if case["kind"] == "opt" else \
            [({case["var"]: 1.0}, False, (impl.get("ok") or [None, None])[0]), ({case["var"]: 1.0}, True, (impl.get("ok") or [None, None])[1])]
        if impl.get("err") and impl["err"] != "ValueError":
            return {"signature": "optimize:undocumented-exception:" + impl["err"], "what": str(impl)[:200], "witness": case}
        for obj, mx, got in probs:
            kind, val = self._truth(c, obj, mx)
            if "err" in impl:
                if kind != "ValueError":
                    sig = "optimize:ValueError-but-" + ("unbounded" if kind == "None" else "optimum-exists") + ("-no-constraints" if not (c["a"] or c["g"]) else "")
                    return {"signature": sig, "what": f"ValueError raised although the contract is satisfiable (truth: {kind} {val})", "witness": case}
                continue
            if kind == "ValueError" and all(not t["c"] for t in c["a"] + c["g"]):
                return {"signature": "optimize:no-error-on-unsatisfiable:only-variable-free-rows",
                        "what": f"returned {got} for a contract whose rows are all variable-free and one of them reads 0 <= negative (unsatisfiable)", "witness": case}
            if kind == "ValueError":
                return {"signature": "optimize:no-error-on-unsatisfiable", "what": f"returned {got} for an unsatisfiable contract", "witness": case}
            if kind == "None" and got is not None:
                return {"signature": "optimize:value-for-unbounded", "what": f"returned {got} but the objective is unbounded", "witness": case}
            if kind == "value" and (got is None or abs(got - float(val)) > 1e-6 * max(1.0, abs(float(val)))):
                return {"signature": "optimize:wrong-optimum", "what": f"returned {got}, exact optimum {val}", "witness": case}
        return None

    def branch(self, case, impl, model):
        if case["kind"] == "bounds":
            return ["bounds"]
        extra = ["varfree"] if case.get("tag") == "varfree" else []
        if "err" in impl:
            return [impl["err"]] + extra
        return ["None" if impl["ok"] is None else "value"] + extra

    def nontrivial(self, case, impl):
        return bool(case["c"]["a"] or case["c"]["g"])


def _union(a, b):
    out = list(a)
    for t in b:
        if not any(G.mk_key(t) == G.mk_key(u) for u in out):
            out.append(t)
    return out


CHECK = C12()
