"""C05: the real IoContract runs on scripted symbolic term lists (harness/sym_termlist.py); cases = interface
topology (every variable gets a role absent/in/out in each of two contracts; exhaustive for n <= 2 in quick,
n <= 3 in thorough, random up to 6) x mention pattern of the variables in a/g atoms x operation
(compose / quotient / merge) x keep / additional-input subset x simplify flag x script over the primitive
call sites (ok-identity, ok-filter, ok-fresh with or without leftover variables, ValueError; refines
True/False/ValueError).  A fresh answer is an atom whose name spells out site and arguments, so operand,
context, variable list and flags of every primitive call are compared through the result.  Judge: the same
operation on SEMANTIC term lists (atoms = sets of worlds, primitives answer randomly within their documented
contracts) - the obligations of C01/C02/C08 are then checked on all worlds.  Non-trivial = the operation
reached at least one primitive call."""
from __future__ import annotations

import itertools
import random
from typing import List, Optional

from .. import common as C
from ..framework import Check

ROLES = ["-", "i", "o"]
ELIM_ACTS = ["id", "filter", "fresh", "fresh", "err"]
SIMP_ACTS = ["id", "id", "drop1", "fresh", "err"]
REF_ACTS = ["yes", "yes", "no", "err"]
SITES = {"ctor": ["ctor"], "compose": ["refA", "simpA", "relG1", "relG2", "relAll", "ctor"],
         "quotient": ["qRef", "qRelA", "qRefG1", "qRefG2", "ctor"],
         "merge": ["ctor"]}


def contract_from_roles(roles: List[str], which: int, rng: random.Random, tag: str, malformed: bool = False) -> dict:
    ins = [i + 1 for i, r in enumerate(roles) if r[which] == "i"]
    outs = [i + 1 for i, r in enumerate(roles) if r[which] == "o"]
    if rng.random() < 0.3:
        rng.shuffle(ins)
        rng.shuffle(outs)

    def atoms(prefix, pool, n):
        out = []
        for k in range(n):
            vs = [v for v in pool if rng.random() < 0.6]
            out.append({"n": f"{prefix}{tag}{k}", "v": vs})
        return out

    allv = list(range(1, len(roles) + 1))
    a = atoms("a", ins if not malformed else allv, rng.randint(0, 2))
    g = atoms("g", ins + outs if not malformed else allv, rng.randint(1, 2))
    return {"a": a, "g": g, "ins": ins, "outs": outs}


def rand_script(op: str, rng: random.Random, nvars: int) -> dict:
    sc = {}
    for s in SITES[op]:
        if s in ("simpA", "ctor"):
            act = rng.choice(SIMP_ACTS)
        elif s == "qRef":
            act = rng.choice(REF_ACTS)
        else:
            act = rng.choice(ELIM_ACTS)
        if act == "fresh":
            k = rng.randint(0, min(2, nvars))
            act = {"fresh": sorted(rng.sample(range(1, nvars + 1), k))}
        sc[s] = act
    return sc


def gen_case(rng: random.Random, roles: List[str], op: Optional[str] = None, malformed: bool = False) -> dict:
    n = len(roles)
    op = op or rng.choice(["compose", "compose", "quotient", "quotient", "merge"])
    if malformed:
        op = "ctor"
    c1 = contract_from_roles(roles, 0, rng, "1", malformed)
    c2 = contract_from_roles(roles, 1, rng, "2", False)
    if malformed and rng.random() < 0.4:
        # repeated / overlapping interface entries
        r = rng.random()
        if len(c1["ins"]) >= 2 and r < 0.25:
            c1["ins"] = c1["ins"] + rng.sample(c1["ins"], 2)          # two DIFFERENT variables repeated (x, y, x, y)
        elif len(c1["outs"]) >= 2 and r < 0.45:
            c1["outs"] = c1["outs"] + list(reversed(c1["outs"]))[:2]  # (w, v, v, w)
        elif c1["ins"] and r < 0.7:
            c1["ins"] = c1["ins"] + [c1["ins"][0]]
        elif c1["outs"]:
            c1["outs"] = c1["outs"] + [rng.choice(c1["outs"] + c1["ins"])]
    case = {"op": op, "c1": c1, "c2": c2, "simplify": rng.random() < 0.6, "order": rng.choice([[], [1, 2, 3, 4, 5], [2], [5, 1]]),
            "script": rand_script(op, rng, n)}
    allv = list(range(1, n + 1))
    if op == "compose":
        outs = c1["outs"] + [v for v in c2["outs"] if v not in c1["outs"]]
        pool = outs if rng.random() < 0.85 else allv
        case["keep"] = [v for v in pool if rng.random() < 0.35]
    if op == "quotient":
        pool = (c2["outs"] + [v for v in c1["ins"] if v not in c2["outs"]]) if rng.random() < 0.85 else allv
        case["addl"] = [v for v in pool if rng.random() < 0.3]
    return case


def run_sym(case: dict, cls, masks=None):
    from .. import sym_termlist as S
    from pacti.iocontract import Var

    op = case["op"]
    if op == "ctor":
        r = S.mk_sym_contract(cls, case["c1"], masks, simplify=case["simplify"])
        return r, r, r
    c1 = S.mk_sym_contract(cls, case["c1"], masks)
    c2 = S.mk_sym_contract(cls, case["c2"], masks)
    if op == "compose":
        r, _ = c1.compose_tactics(c2, [Var(str(v)) for v in case["keep"]], case["simplify"], list(case["order"]))
    elif op == "quotient":
        r, _ = c1.quotient_tactics(c2, [Var(str(v)) for v in case["addl"]], case["simplify"], list(case["order"]))
    else:
        r = c1.merge(c2)
    return c1, c2, r


class C05(Check):
    pid = "C05"
    title = "Algebra layer is sound for any constraint domain meeting the primitive specs"
    level_text = ("Lean theorems compose_sound / quotient_sound / merge_exact / refinesC_sound / algebra_errors for the model of IoContract.compose_tactics, "
                  "quotient_tactics, merge, refines over an ABSTRACT term type and arbitrary per-call-site primitives assumed only to meet their documented contracts "
                  "(unbounded in variables, terms, wirings, primitive outcomes); the interface/decision expressions the model uses are regenerated from iocontract.py on "
                  "every run, so the proofs are re-checked against the current source; the order, operands and contexts of the primitive calls are tied to the code by "
                  "running the unmodified IoContract on scripted symbolic term lists whose fresh answers encode site and arguments; failing-input search on semantic term lists.")
    lean_modules = ["Pacti.Props.C05"]
    theorems = ["Pacti.C05.compose_sound", "Pacti.C05.quotient_sound", "Pacti.C05.merge_exact", "Pacti.C05.refines_sound",
                "Pacti.C05.algebra_errors"]
    quick_n = 4000
    thorough_n = 150000
    judge_sample = 400
    trusted_base = [
        "Lean 4.33 kernel; axioms ⊆ {propext, Quot.sound, Classical.choice}",
        "translator tools/py2lean.py (Gen/Lists.lean, Gen/Iface.lean regenerated from lists.py / iocontract.py on every run)",
        "hand-written call structure in Model/Algebra.lean, tied to iocontract.py by the scripted symbolic correspondence",
        "harness/sym_termlist.py (mirror of Model/Sym.lean)",
    ]
    assumptions = ["primitives meet Spec (refine ⇒ implies original in context; relax ⇒ implied; simplify ⇔ in context; refines True ⇒ containment) and fail only with ValueError"]
    min_branches = {"compose:ok": 90, "quotient:ok": 100, "merge:ok": 100, "err:IncompatibleArgsError": 200, "err:ValueError": 100,
                    "compose:refA": 40, "quotient:qRef-no": 30}

    def generate(self, rng, n, tier):
        out = []
        maxn = 2 if tier == "quick" else 3
        # exhaustive topologies for small n (one random content each)
        for k in range(1, maxn + 1):
            for roles in itertools.product([a + b for a in ROLES for b in ROLES], repeat=k):
                for op in ("compose", "quotient", "merge"):
                    out.append(gen_case(rng, list(roles), op))
        while len(out) < n:
            k = rng.randint(2, 6)
            roles = [rng.choice(ROLES) + rng.choice(ROLES) for _ in range(k)]
            out.append(gen_case(rng, roles, malformed=rng.random() < 0.08))
        return out

    def run_impl(self, case):
        from .. import sym_termlist as S

        S.SESSION = S.Session(case["op"], case["script"])
        try:
            _, _, r = run_sym(case, S.ScriptedTL)
        except Exception as e:
            return {"err": C.classify_exc(e), "log": S.SESSION.log}
        return {"ok": S.un_sym_contract(r), "log": S.SESSION.log}

    def model_request(self, case, impl):
        return {"op": "sym_" + case["op"], "c1": case["c1"], "c2": case["c2"], "keep": case.get("keep", []), "addl": case.get("addl", []),
                "simplify": case["simplify"], "order": case["order"], "script": case["script"]}

    def compare(self, case, impl, model):
        if "err" in impl or "err" in model:
            return None if impl.get("err") == model.get("err") else f"impl {impl.get('err', 'ok')} vs model {model.get('err', 'ok')}"
        return None if impl["ok"] == model["ok"] else f"impl {impl['ok']} vs model {model['ok']}"

    def judge(self, case, impl):
        from .. import sym_termlist as S

        if impl.get("err") and impl["err"] not in ("IncompatibleArgsError", "ValueError"):
            return {"signature": "algebra:undocumented-exception:" + impl["err"], "what": str(impl)[:300], "witness": case}
        rng = random.Random(C.seed_from_env() * 7919 + hash(str(case)) % 100003)
        names = [a["n"] for c in (case["c1"], case["c2"]) for a in c["a"] + c["g"]]
        for trial in range(12):
            masks = {n: (S.FULL if rng.random() < 0.15 else rng.randrange(S.FULL + 1) | rng.randrange(S.FULL + 1)) for n in names}
            S.SEM = S.SemSession(random.Random(rng.random()), fail_p=0.08)
            try:
                c1, c2, r = run_sym(case, S.SemTL, masks)
            except ValueError:
                continue
            bad = check_obligations(case["op"], c1, c2, r)
            if bad is not None:
                return {"signature": f"algebra:{case['op']}-unsound", "what": f"{case['op']} result violates its obligation in world {bad[0]}: {bad[1]}",
                        "witness": {"masks": masks, "log": S.SEM.log, "result": str(r)}}
        return None

    def branch(self, case, impl, model):
        b = []
        if "err" in impl:
            b.append("err:" + impl["err"])
        else:
            b.append(case["op"] + ":ok")
        sites = [l[0] for l in impl.get("log", [])]
        if "refA" in sites:
            b.append("compose:refA")
        if case["op"] == "quotient" and case["script"].get("qRef") == "no" and "qRef" in sites:
            b.append("quotient:qRef-no")
        return b

    def nontrivial(self, case, impl):
        return bool(impl.get("log"))


def check_obligations(op, c1, c2, r):
    from .. import sym_termlist as S

    for w in range(S.NW):
        bit = 1 << w

        def H(tl):
            return all(t.mask & bit for t in tl.terms)

        if op == "ctor":
            continue
        if op == "compose":
            if H(r.a) and (not H(c1.a) or H(c1.g)) and (not H(c2.a) or H(c2.g)):
                if not (H(c1.a) and H(c2.a) and H(r.g)):
                    return w, f"a1={H(c1.a)} a2={H(c2.a)} g={H(r.g)}"
        elif op == "quotient":
            # c1 = dividend C, c2 = divisor C1, r = quotient Q
            if H(c1.a) and (not H(c2.a) or H(c2.g)) and (not H(r.a) or H(r.g)):
                if not (H(c2.a) and H(r.a) and H(c1.g)):
                    return w, f"a_C1={H(c2.a)} a_Q={H(r.a)} g_C={H(c1.g)}"
        else:
            if H(r.a) != (H(c1.a) and H(c2.a)):
                return w, "assumptions are not the conjunction"
            if H(r.a) and (H(r.g) != (H(c1.g) and H(c2.g))):
                return w, "guarantees are not the conjunction under the assumptions"
    return None


CHECK = C05()
