"""C13: histories (length <= 30 in thorough, <= 14 in quick) of operations on a shared pool of polyhedral contracts whose
results are fed back into the pool: compose, quotient, merge, refines, rename, copy, simplify, elimination (both
directions), optimize, emptiness, to/from machine dict, to/from strings, parsing, membership.  Before every step every
pool member, every argument list and the module constants (TACTICS_ORDER x2, TACTICS keys) are deep-snapshotted
(dict orders, hex floats) and compared after; the returned object is then scribbled on in place (lists appended,
coefficients changed, variables renamed) and the pool compared again (aliasing); at the end every step is replayed on
the then-current pool (a later point of the session), and the whole history is replayed IN REVERSE ORDER in a freshly
spawned interpreter from the recorded operand values.  The outputs are compared with the pure session machine
(Lean).  Non-trivial = the history has at least 3 steps that returned a contract."""
from __future__ import annotations

import copy
import json
import os
import random
import subprocess
import sys
from typing import Any, Dict, List, Optional

from .. import common as C
from .. import contracts as K
from .. import gen as G
from ..framework import Check
from .c01 import rand_order
from .c04 import _wrap_tlp, wire_hints
from .c12 import render_obj


# ---- snapshots -----------------------------------------------------------------------------------------

def snap_term(t):
    return [[str(k), float(v).hex()] for k, v in t.variables.items()], float(t.constant).hex()


def snap_tl(tl):
    return [snap_term(t) for t in tl.terms]


def snap_contract(c):
    return {"ins": [str(v) for v in c.inputvars], "outs": [str(v) for v in c.outputvars], "a": snap_tl(c.a), "g": snap_tl(c.g)}


def snap_globals():
    from pacti.contracts import polyhedral_iocontract as PC
    from pacti.terms.polyhedra import polyhedra as PP

    return {"order1": list(PP.TACTICS_ORDER), "order2": list(PC.TACTICS_ORDER), "tactics": sorted(PP.PolyhedralTermList.TACTICS.keys())}


def value_of(x):
    """JSON value of a result (for comparison between runs / with the model)"""
    from pacti.contracts import PolyhedralIoContract
    from pacti.terms.polyhedra import PolyhedralTermList

    if isinstance(x, PolyhedralIoContract):
        return {"contract": G.un_contract(x)}
    if isinstance(x, PolyhedralTermList):
        return {"terms": G.un_tl(x)}
    if isinstance(x, list) and x and all(type(t).__name__ == "PolyhedralTerm" for t in x):
        return {"terms": [G.un_term(t) for t in x]}
    if isinstance(x, bool):
        return {"bool": x}
    if x is None or isinstance(x, (int, float)):
        return {"num": None if x is None else float(x)}
    if isinstance(x, (list, dict, str, tuple)):
        return {"json": json.loads(json.dumps(x, default=str))}
    return {"other": str(type(x))}


def values_close(a, b, rtol=1e-9):
    if set(a) != set(b):
        return False
    if "contract" in a:
        ca, cb = a["contract"], b["contract"]
        vm = C.VarMap(K.all_names(ca, cb))
        return ca["ins"] == cb["ins"] and ca["outs"] == cb["outs"] and C.tls_close(G.w_tl(ca["a"], vm), G.w_tl(cb["a"], vm), rtol) \
            and C.tls_close(G.w_tl(ca["g"], vm), G.w_tl(cb["g"], vm), rtol)
    if "terms" in a:
        vm = C.VarMap(G.names_of(a["terms"], b["terms"]))
        return C.tls_close(G.w_tl(a["terms"], vm), G.w_tl(b["terms"], vm), rtol)
    if "num" in a:
        if a["num"] is None or b["num"] is None:
            return a["num"] is None and b["num"] is None
        return abs(a["num"] - b["num"]) <= rtol * max(1.0, abs(a["num"]))
    return a == b


# ---- executing one operation on real objects ---------------------------------------------------------------

def exec_op(op: dict, pool: list):
    from pacti.contracts import PolyhedralIoContract
    from pacti.iocontract import Var
    from pacti.terms.polyhedra import serializer

    k = op["k"]
    ci = pool[op["i"]] if "i" in op else None
    cj = pool[op["j"]] if "j" in op else None
    if k == "compose":
        return ci.compose_tactics(cj, op["keep"], op["simplify"], op["order"])[0]
    if k == "quotient":
        return ci.quotient_tactics(cj, [Var(v) for v in op["addl"]], op["simplify"], op["order"])[0]
    if k == "merge":
        return ci.merge(cj)
    if k == "rename":
        return ci.rename_variable(Var(op["src"]), Var(op["dst"]))
    if k == "copy":
        return ci.copy()
    if k == "ctor":
        # the constructor is handed the operand's OWN lists and term lists
        return PolyhedralIoContract(assumptions=ci.a, guarantees=ci.g, input_vars=ci.inputvars, output_vars=ci.outputvars)
    if k == "tl_ctor":
        from pacti.terms.polyhedra import PolyhedralTermList

        return PolyhedralTermList(ci.g.terms)
    if k == "tl_ops":
        return [G.un_tl(ci.a | ci.g), G.un_tl(ci.g - ci.a), G.un_tl(ci.g & ci.g), G.un_tl(ci.g.copy())]
    if k == "tl_or":
        return ci.a | ci.g
    if k == "refines":
        return bool(ci.refines(cj))
    if k == "simplify":
        return ci.g.simplify(ci.a)
    if k == "elim":
        f = ci.g.elim_vars_by_refining if op["refine"] else ci.g.elim_vars_by_relaxing
        return f(ci.a, [Var(v) for v in op["xs"]], op["simplify"], op["order"])[0]
    if k == "optimize":
        return ci.optimize(render_obj(op["obj"]), maximize=op["max"])
    if k == "is_empty":
        return bool((ci.a | ci.g).is_empty())
    # ---- implementation-only operations (serialisation, parsing, membership): not in the Lean session machine
    if k == "machine_rt":
        return G.un_contract(PolyhedralIoContract.from_dict(ci.to_machine_dict(), simplify=False))
    if k == "string_rt":
        d = ci.to_dict()
        return G.un_contract(PolyhedralIoContract.from_strings(d["assumptions"], d["guarantees"], d["input_vars"], d["output_vars"], simplify=False))
    if k == "parse":
        return serializer.polyhedral_termlist_from_string(op["s"])     # the raw list of term objects the parser hands out
    if k == "contains":
        return bool((ci.a | ci.g).contains_behavior({Var(v): x for v, x in op["beh"].items()}))
    raise ValueError("unknown op " + k)


MODEL_OPS = {"compose", "quotient", "merge", "rename", "copy", "ctor", "refines", "simplify", "elim", "optimize", "is_empty"}


def arg_lists(op):
    return {k: copy.deepcopy(v) for k, v in op.items() if isinstance(v, (list, dict))}


def scribble(r):
    """mutate a result in place as a careless caller would"""
    from pacti.contracts import PolyhedralIoContract
    from pacti.iocontract import Var
    from pacti.terms.polyhedra import PolyhedralTerm, PolyhedralTermList

    junk = PolyhedralTerm({Var("zz"): 7.0}, -7.0)
    if isinstance(r, PolyhedralIoContract):
        r.inputvars.append(Var("zz"))
        r.outputvars.append(Var("zy"))
        for tl in (r.a, r.g):
            for t in tl.terms:
                for kk in list(t.variables):
                    t.variables[kk] *= 3.0
                t.constant += 11.0
                t.variables[Var("zz")] = 1.0
            tl.terms.append(junk)
    elif isinstance(r, PolyhedralTermList):
        for t in r.terms:
            for kk in list(t.variables):
                t.variables[kk] *= 3.0
            t.constant += 11.0
        r.terms.append(junk)
    elif isinstance(r, list) and r and all(type(t).__name__ == "PolyhedralTerm" for t in r):
        for t in r:
            for kk in list(t.variables):
                t.variables[kk] *= 3.0
            t.constant += 11.0
        r.append(junk)
    elif isinstance(r, list):
        r.append("zz")
    elif isinstance(r, dict):
        r["zz"] = 1


def run_history(case: dict, fresh_replay: bool = True) -> dict:
    C.setup_pacti()
    from pacti.contracts import PolyhedralIoContract
    from pacti.terms.polyhedra import PolyhedralTermList

    pool = [G.mk_contract(c, simplify=False) for c in case["pool"]]
    outs: List[dict] = []
    findings: List[dict] = []
    hints: list = []
    undo = _wrap_tlp(hints)
    try:
        for n, op in enumerate(case["ops"]):
            before = [snap_contract(c) for c in pool]
            gl = snap_globals()
            args_before = arg_lists(op)
            try:
                r = exec_op(op, pool)
                val = value_of(r)
            except Exception as e:
                r = None
                val = {"err": C.classify_exc(e)}
            outs.append(val)
            after = [snap_contract(c) for c in pool]
            if after != before:
                idx = next(i for i, (x, y) in enumerate(zip(before, after)) if x != y)
                findings.append({"signature": f"purity:operand-mutated:{op['k']}", "step": n, "what": f"pool member {idx} changed during {op['k']}", "before": before[idx], "after": after[idx]})
            if snap_globals() != gl:
                findings.append({"signature": f"purity:module-state-mutated:{op['k']}", "step": n, "what": f"module constants changed: {gl} -> {snap_globals()}"})
            if arg_lists(op) != args_before:
                findings.append({"signature": f"purity:argument-list-mutated:{op['k']}", "step": n, "what": f"argument lists changed: {args_before} -> {arg_lists(op)}"})
            if r is not None and isinstance(r, (PolyhedralIoContract, PolyhedralTermList, list, dict)):
                keep = copy.deepcopy(r)
                scribble(r)
                after2 = [snap_contract(c) for c in pool]
                if after2 != before:
                    idx = next(i for i, (x, y) in enumerate(zip(before, after2)) if x != y)
                    findings.append({"signature": f"purity:result-aliases-operand:{op['k']}", "step": n, "what": f"mutating the result of {op['k']} changed pool member {idx}"})
                    # restore so that the rest of the history is meaningful
                    pool = [G.mk_contract(_unsnap(b), simplify=False) for b in before]
                if isinstance(keep, PolyhedralIoContract) and op["k"] in MODEL_OPS:
                    pool.append(keep)
        # later point of the session: every step again, on the pool as it is now
        for n, op in enumerate(case["ops"]):
            try:
                val = value_of(exec_op(op, pool))
            except Exception as e:
                val = {"err": C.classify_exc(e)}
            if not values_close(val, outs[n]):
                findings.append({"signature": f"purity:history-dependent:{op['k']}", "step": n, "what": f"repeating step {n} ({op['k']}) at the end of the session gave a different result",
                                 "first": outs[n], "again": val})
    finally:
        undo()
    final_pool = [G.un_contract(c) for c in pool]
    if fresh_replay and not findings:
        payload = json.dumps({"pool": final_pool, "ops": case["ops"], "outs": outs})
        env = dict(os.environ, PYTHONPATH=C.VERIF, PACTI_SRC=C.PACTI_SRC)
        p = subprocess.run([sys.executable, "-m", "harness.props.c13", "--replay-stdin"], input=payload, capture_output=True, text=True, env=env, cwd=C.VERIF, timeout=600)
        if p.returncode != 0:
            findings.append({"signature": "infra:fresh-replay-crashed", "what": p.stderr[-800:], "infra": True})
        else:
            for d in json.loads(p.stdout):
                findings.append(d)
    return {"outs": outs, "findings": findings, "hints": hints, "final_pool_size": len(pool)}


def _unsnap(s):
    def tl(l):
        return [{"c": {k: float.fromhex(v) for k, v in cs}, "k": float.fromhex(kk)} for cs, kk in l]

    return {"ins": s["ins"], "outs": s["outs"], "a": tl(s["a"]), "g": tl(s["g"])}


def fresh_replay_main():
    """runs in a brand-new interpreter: the steps of the history in REVERSE order on the recorded final pool"""
    C.setup_pacti()
    d = json.loads(sys.stdin.read())
    pool = [G.mk_contract(c, simplify=False) for c in d["pool"]]
    out = []
    for n in reversed(range(len(d["ops"]))):
        op = d["ops"][n]
        try:
            val = value_of(exec_op(op, pool))
        except Exception as e:
            val = {"err": C.classify_exc(e)}
        if not values_close(val, d["outs"][n]):
            out.append({"signature": f"purity:fresh-interpreter-differs:{op['k']}", "step": n,
                        "what": f"step {n} ({op['k']}) gives a different result in a fresh interpreter (history replayed in reverse)", "first": d["outs"][n], "fresh": val})
    print(json.dumps(out))


class C13(Check):
    pid = "C13"
    title = "Operations are pure: operands unchanged, results independent of history"
    level = "proof"
    level_text = ("PARTIAL. Lean: the pure session machine (Model/Session.lean: every operation reads operand VALUES by pool index and appends its result) with the "
                  "frame and determinism theorems step_frame, run_frame, step_values, replay_later - the specification. That the Python objects refine it is established "
                  "by the history correspondence only: deep snapshots (dict order, hex floats) of every pool member, argument list and module constant before/after each "
                  "step, in-place scribbling on every returned object (aliasing), replay of every step at the end of the session and of the whole history in reverse order in "
                  "a freshly spawned interpreter, and comparison of every output with the session machine. Object identity / aliasing is runtime behaviour the value model "
                  "cannot exhibit; a mutation invisible through the snapshotted public attributes is not seen.")
    lean_modules = ["Pacti.Props.C13"]
    theorems = ["Pacti.C13.step_frame", "Pacti.C13.run_frame", "Pacti.C13.step_values", "Pacti.C13.replay_later"]
    quick_n = 48
    thorough_n = 1500
    judge_sample = 10000
    trusted_base = [
        "Lean 4.33 kernel; axioms ⊆ {propext, Classical.choice, Quot.sound}",
        "the session machine is a specification; its refinement by the implementation is checked by the history harness (snapshots, scribbling, replays), not proved",
        "snapshots cover the public attributes inputvars, outputvars, a.terms, g.terms, term.variables (order included), term.constant",
    ]
    assumptions = ["IoContract.simplify() (documented in-place mutator) is not one of the operations"]
    min_branches = {"ctor": 8, "tl_or": 8, "contract-result": 60, "compose": 20, "quotient": 8, "rename": 8, "elim": 15, "string_rt": 8, "parse": 8}

    def generate(self, rng, n, tier):
        out = []
        maxlen = 14 if tier == "quick" else 30
        for _ in range(n):
            c1, c2, _w = K.gen_pair(rng)
            c3, c4, _w2 = K.gen_pair(rng)
            pool = [c1, c2, c3]
            size = len(pool)
            ops = []
            for _s in range(rng.randint(6, maxlen)):
                k = rng.choice(["compose", "compose", "quotient", "merge", "rename", "copy", "ctor", "refines", "simplify", "elim", "elim", "optimize", "is_empty",
                                "machine_rt", "string_rt", "parse", "contains", "tl_ops", "tl_or"])
                i, j = rng.randrange(size), rng.randrange(size)
                op: Dict[str, Any] = {"k": k, "i": i}
                if k in ("compose", "quotient", "merge", "refines"):
                    op["j"] = j
                if k == "compose":
                    op.update(keep=[v for v in ["x", "y", "o"] if rng.random() < 0.2], simplify=rng.random() < 0.6, order=rand_order(rng))
                elif k == "quotient":
                    op.update(addl=[v for v in ["i", "x"] if rng.random() < 0.15], simplify=rng.random() < 0.6, order=rand_order(rng))
                elif k == "rename":
                    op.update(src=rng.choice(["i", "j", "x", "y", "o", "zz"]), dst=rng.choice(["i", "x", "o", "t", "u"]))
                elif k == "elim":
                    op.update(refine=rng.random() < 0.5, xs=[v for v in ["x", "y", "i"] if rng.random() < 0.5] or ["x"], simplify=rng.random() < 0.5, order=rand_order(rng))
                elif k == "optimize":
                    op.update(obj={rng.choice(["i", "x", "o", "y"]): float(rng.choice([-2, -1, 1, 2]))}, max=rng.random() < 0.5)
                elif k == "parse":
                    op.pop("i")
                    op["s"] = rng.choice(["2x + 3y <= 4", "|x - y| <= 2", "x = 0", "-a + 2(b - c) <= 1", "1 <= x <= 3", "2|x| + y >= 1"])
                elif k == "contains":
                    op["beh"] = {v: float(rng.randint(-2, 2)) for v in ["i", "j", "x", "y", "o", "p", "q", "t", "u"]}
                ops.append(op)
                # pool growth is not known in advance; indices are taken modulo the pool size at run time
            out.append({"pool": pool, "ops": ops})
        # dedicated histories: a refinement that only tactic 4 can do, and only by recursing through a context row with TWO variables
        # to eliminate (no single-conflict goal row), performed, followed by unrelated work, and performed again on equal operands.
        # State that such a recursion leaves behind (a default argument that grows, a module-level list that shrinks) shows in the repeat.
        for _ in range(3):
            sg = float(rng.choice([1, -1]))
            chain = {"ins": ["i", "j", "k"], "outs": ["o"],
                     "a": [{"c": {"i": sg, "j": -sg}, "k": float(rng.randint(0, 2))}, {"c": {"j": sg, "k": -sg}, "k": float(rng.randint(0, 2))}],
                     "g": [{"c": {"o": sg * rng.choice([1.0, 2.0]), "i": sg}, "k": float(rng.randint(-2, 3))}]}
            c1, c2, _w = K.gen_pair(rng)
            e = {"k": "elim", "i": 0, "refine": True, "xs": ["i", "j"], "simplify": rng.random() < 0.5, "order": rng.choice([[1, 2, 3, 4, 5], [4], [4, 5]])}
            mid = [{"k": "compose", "i": 1, "j": 2, "keep": [], "simplify": True, "order": [1, 2, 3, 4, 5]}, {"k": "copy", "i": 0},
                   {"k": "elim", "i": 1, "refine": False, "xs": ["x"], "simplify": True, "order": [1, 2, 3, 4, 5]}]
            out.append({"pool": [chain, c1, c2], "ops": [dict(e)] + mid[: rng.randint(1, 3)] + [dict(e), {"k": "is_empty", "i": 0}, dict(e)]})
        return out

    def run_impl(self, case):
        case = self._normalise(case)
        return run_history(case)

    @staticmethod
    def _normalise(case):
        """indices modulo the pool size at the time of the step are resolved by a dry bookkeeping run in run_history; here we only
        make them valid for the initial pool (results appended later can be addressed by later steps through the modulo)"""
        n0 = len(case["pool"])
        ops = []
        for op in case["ops"]:
            op = dict(op)
            for key in ("i", "j"):
                if key in op:
                    op[key] = op[key] % n0
            ops.append(op)
        return {"pool": case["pool"], "ops": ops}

    def model_request(self, case, impl):
        case = self._normalise(case)
        names = set(K.all_names(*case["pool"]))
        for op in case["ops"]:
            for key in ("keep", "addl", "xs"):
                names.update(op.get(key, []))
            for key in ("src", "dst"):
                if key in op:
                    names.add(op[key])
            names.update(op.get("obj", {}).keys())
        vm = C.VarMap(sorted(names))
        ops = []
        for op in case["ops"]:
            if op["k"] not in MODEL_OPS:
                ops.append({"k": "scribble", "i": 0})
                continue
            o = dict(op)
            if o["k"] == "ctor":
                o["k"] = "copy"
            for key in ("keep", "addl", "xs"):
                if key in o:
                    o[key] = vm.vars(o[key])
            for key in ("src", "dst"):
                if key in o:
                    o[key] = vm.i(o[key])
            if "obj" in o:
                o["obj"] = [[vm.i(v), C.qs(x)] for v, x in o["obj"].items()]
            ops.append(o)
        return {"op": "session", "pool": [K.w_contract(c, vm) for c in case["pool"]], "ops": ops, "hints": wire_hints(impl.get("hints", []), vm), "_names": sorted(names)}

    def compare(self, case, impl, model):
        names = set(K.all_names(*case["pool"]))
        for op in case["ops"]:
            for key in ("keep", "addl", "xs"):
                names.update(op.get(key, []))
            for key in ("src", "dst"):
                if key in op:
                    names.add(op[key])
            names.update(op.get("obj", {}).keys())
        vm = C.VarMap(sorted(names))
        case = self._normalise(case)
        tie = False
        for n, (op, io) in enumerate(zip(case["ops"], impl["outs"])):
            if op["k"] not in MODEL_OPS:
                continue
            if all(mo.get("err") == "oracle-stuck" for mo in (model["outs"][n], model["alt"][n])):
                # the model abstains at this step (a singular context in tactic 1/3/5: sympy's answer is not modelled);
                # the rest of the history cannot be compared.  The implementation's outputs are still judged.
                return f"STUCK: step {n} ({op['k']})"
            ok = False
            for mo in (model["outs"][n], model["alt"][n]):
                if self._same_out(io, mo, vm):
                    ok = True
                    break
            if not ok:
                if any(self._same_out(io, nv[n], vm) for nv in model.get("near", [])):
                    return "TIE: float near-tie (reproduced when every LP optimum is nudged by 1e-10 or every LP is solved inside |v| <= 1e9: float near-tie or a slope below float resolution)"
                if json.dumps(model["outs"][n], sort_keys=True) != json.dumps(model["alt"][n], sort_keys=True):
                    return "TIE: tie-sensitive step resolved in a mixed way"
                if "contract" in io and K.has_residue_term(io["contract"]):
                    return "TIE: float cancellation residue (the implementation's result has a term whose every coefficient is below 1e-9)"
                return f"step {n} ({op['k']}): impl {str(io)[:300]} vs model {str(model['outs'][n])[:300]}"
        return None

    @staticmethod
    def _same_out(io, mo, vm):
        try:
            return C13._same_out_(io, mo, vm)
        except KeyError:
            # the implementation's output mentions a variable that occurs nowhere in this history's requests (a result handed
            # over from another computation): a disagreement with the model, not a harness error
            return False

    @staticmethod
    def _same_out_(io, mo, vm):
        if "err" in io or "err" in mo:
            return io.get("err") == mo.get("err")
        if "contract" in io:
            return "contract" in mo and K.contract_close(io["contract"], mo["contract"], vm)
        if "terms" in io:
            return "terms" in mo and C.tls_close(G.w_tl(io["terms"], vm), mo["terms"])
        if "bool" in io:
            return mo.get("bool") == io["bool"] or "verdict" in mo
        if "num" in io:
            if "num" not in mo:
                return False
            if io["num"] is None or mo["num"] is None:
                return io["num"] is None and mo["num"] is None
            from fractions import Fraction

            return abs(io["num"] - float(Fraction(mo["num"]))) <= 1e-6 * max(1.0, abs(io["num"]))
        return False

    def judge(self, case, impl):
        for f in impl.get("findings", []):
            if f.get("infra"):
                return {"signature": "judge-crash", "what": f["what"], "witness": f, "infra": True}
            return {"signature": f["signature"], "what": f["what"], "witness": f}
        return None

    def branch(self, case, impl, model):
        b = []
        for op, o in zip(case["ops"], impl.get("outs", [])):
            b.append(op["k"])
            if "contract" in o:
                b.append("contract-result")
        return b

    def nontrivial(self, case, impl):
        return sum(1 for o in impl.get("outs", []) if "contract" in o) >= 3


CHECK = C13()

if __name__ == "__main__":
    if "--replay-stdin" in sys.argv:
        fresh_replay_main()
