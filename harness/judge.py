"""Exact decisions used by the failing-input search: LP over the rationals through the Lean driver
(certificate-checked answers) and plain Fraction arithmetic."""
from __future__ import annotations

from fractions import Fraction
from typing import Dict, List, Optional, Tuple

from . import common as C
from . import gen as G

BOX = 1000
TOL = Fraction(1, 10000)      # conclusions: violated only beyond 1e-4*(1+|c|)
HYP = Fraction(1, 10**7)      # negatively-occurring hypotheses get 1e-7 slack


def lp_batch(problems: List[Tuple[dict, List[dict]]], vm: C.VarMap) -> List[dict]:
    """problems: (objective coefficient dict, constraint terms) -> driver answers (max obj)"""
    reqs = [{"op": "lp", "obj": [[vm.i(v), C.qs(c)] for v, c in obj.items() if c != 0], "cs": G.w_tl(cs, vm)} for obj, cs in problems]
    return C.run_driver(reqs)


def exact_max(obj: Dict[str, float], cs: List[dict], box: Optional[int] = None) -> Tuple[str, Optional[Fraction], Optional[Dict[str, Fraction]]]:
    names = sorted(set(obj) | set(G.names_of(cs)))
    vm = C.VarMap(names)
    if box is not None:
        cs = cs + G.box_tl(names, -box, box)
    r = lp_batch([(obj, cs)], vm)[0]
    if r["status"] == "optimal":
        pt = {n: Fraction(0) for n in names}
        for x, c in r["x"]:
            pt[vm.n(int(x))] = Fraction(c)
        return "optimal", Fraction(r["m"]), pt
    return r["status"], None, None


def feasible(cs: List[dict], box: Optional[int] = None) -> Tuple[Optional[bool], Optional[Dict[str, Fraction]]]:
    st, _, pt = exact_max({}, cs, box)
    if st == "optimal":
        return True, pt
    if st == "infeasible":
        return False, None
    return None, None


def entails(hyps: List[dict], goal: dict, tol_rel: Fraction = TOL, box: int = BOX) -> Optional[Dict[str, Fraction]]:
    """None if  hyps ∧ box ⊨ goal (up to tol_rel*(1+|k|)); else a violating point"""
    names = sorted(set(G.names_of(hyps, [goal])))
    st, m, pt = exact_max(goal["c"], hyps + G.box_tl(names, -box, box))
    if st == "infeasible":
        return None
    if st != "optimal":
        raise RuntimeError("judge LP: " + st)
    k = C.q(goal["k"])
    if m > k + tol_rel * (1 + abs(k)):
        return pt
    return None


def neg_term(t: dict, slack: Fraction = HYP) -> dict:
    """the closed complement of t beyond `slack`:  lhs ≥ k + slack   i.e.  -lhs ≤ -(k+slack)"""
    return {"c": {v: -c for v, c in t["c"].items()}, "k": -(C.q(t["k"]) + slack)}


def pt_str(pt: Optional[Dict[str, Fraction]]) -> Optional[Dict[str, str]]:
    return None if pt is None else {k: str(v) for k, v in pt.items()}
