"""Behavioural probes of the facts `tools/py2lean.py` reads off the source.

When the translator does not recognise the shape of a function any more (a refactoring), it keeps the previously generated
definition; the tie of that definition to the current source is then *behavioural*: the probe below runs the real function at the
points that pin the generated value down, and the check's own correspondence run must agree everywhere.  A probe returns None
(the current code still behaves as the kept definition says) or a message (it does not: the tie is broken)."""
from __future__ import annotations

import os
import random
import re
from fractions import Fraction
from typing import Callable, Dict, Optional

from . import common as C


def _const_value(name: str) -> Optional[str]:
    txt = open(os.path.join(C.LEAN_DIR, "Pacti", "Gen", "Consts.lean")).read()
    m = re.search(r"^def " + re.escape(name) + r" : [^:=]+:= (.*)$", txt, flags=re.M)
    return m.group(1).strip() if m else None


def _rat(s: str) -> Fraction:
    s = s.replace("(", "").replace(")", "").replace(": Rat", "").replace(" ", "")
    if "/" in s:
        a, b = s.split("/")
        return Fraction(int(a), int(b))
    return Fraction(int(s))


def _terms(*specs):
    from pacti.iocontract import Var
    from pacti.terms.polyhedra import PolyhedralTerm, PolyhedralTermList

    return PolyhedralTermList([PolyhedralTerm({Var(v): float(c) for v, c in cs.items()}, float(k)) for cs, k in specs])


def probe_lists() -> Optional[str]:
    from pacti.utils.lists import list_diff, list_intersection, list_union, lists_equal

    rng = random.Random(7)
    for _ in range(400):
        a = [rng.randint(0, 5) for _ in range(rng.randint(0, 6))]
        b = [rng.randint(0, 5) for _ in range(rng.randint(0, 6))]
        exp = {"list_intersection": [x for x in a if x in b], "list_diff": [x for x in a if x not in b],
               "list_union": a + [x for x in b if x not in a],
               "lists_equal": not [x for x in a if x not in b] and not [x for x in b if x not in a]}
        got = {"list_intersection": list_intersection(a, b), "list_diff": list_diff(a, b), "list_union": list_union(a, b), "lists_equal": lists_equal(a, b)}
        for k in exp:
            if got[k] != exp[k]:
                return f"{k}({a}, {b}) = {got[k]}, the generated definition says {exp[k]}"
    return None


def probe_iface() -> Optional[str]:
    from .props.c06 import CHECK as C06

    viol, _ = C06.extra("quick", random.Random(11))
    if viol:
        return "interface enumeration against the prescribed interfaces: " + str(viol[0].get("what"))[:300]
    return None


def probe_isolate_sign() -> Optional[str]:
    from pacti.iocontract import Var

    sgn = _rat(_const_value("isolateSign"))
    t = _terms(({"x": 2, "y": 3}, 4)).terms[0]
    r = t.isolate_variable(Var("x"))
    exp_c, exp_y = float(sgn * 4 / 2), -1.5
    if abs(float(r.constant) - exp_c) > 1e-12 or abs(float(r.get_coefficient(Var("y"))) - exp_y) > 1e-12:
        return f"isolate_variable(2x + 3y <= 4, x) = {r}, the kept sign {sgn} says constant {exp_c}, y-coefficient {exp_y}"
    return None


def probe_tactic3_fresh() -> Optional[str]:
    from pacti.iocontract import Var

    fresh = _const_value("tactic3Fresh") == "true"
    tl = _terms(({"x": 1, "y": 1, "_": 5}, 1))
    ctx = _terms(({"x": 1, "y": 1, "z": -1}, 0))
    r, _ = tl.elim_vars_by_refining(ctx, [Var("x"), Var("y")], simplify=False, tactics_order=[3])
    keeps = any(abs(float(t.get_coefficient(Var("_"))) - 5.0) < 1e-9 for t in r.terms)
    if keeps != fresh:
        return f"tactic 3 on a term with a user variable '_': result {r}; the kept flag tactic3Fresh = {fresh}"
    return None


def probe_contain_tol() -> Optional[str]:
    t = _rat(_const_value("containTol"))
    eps_in, eps_out = (float(t), float(4 * t)) if t > 0 else (0.0, 1e-9)
    right = _terms(({"x": 1}, 1.0))
    a = _terms(({"x": 1}, 1.0 + eps_in)).refines(right)
    b = _terms(({"x": 1}, 1.0 + eps_out)).refines(right)
    if not a or b:
        return f"refines([x <= 1+{eps_in}], [x <= 1]) = {a}, refines([x <= 1+{eps_out}], [x <= 1]) = {b}; the kept tolerance is {t}"
    return None


def probe_reduce_tol() -> Optional[str]:
    t = _rat(_const_value("reduceTol"))
    eps = float(8 * t) + 1e-7
    r = _terms(({"x": 1}, 1.0), ({"x": 1}, 1.0 + eps)).simplify()
    if len(r.terms) != 1 or abs(float(r.terms[0].constant) - 1.0) > 1e-12:
        return f"simplify([x <= 1, x <= 1+{eps}]) = {r}; with the kept tolerance {t} the tighter row must survive"
    return None


def _parse_terms(s: str):
    from pacti.contracts import PolyhedralIoContract

    c = PolyhedralIoContract.from_strings(input_vars=["x"], output_vars=["y"], assumptions=[s], guarantees=[], simplify=False)
    return c.a.terms


def probe_combine() -> Optional[str]:
    from pacti.iocontract import Var

    v = _const_value("combineNoneNone")
    ts = _parse_terms("|x| + |x| <= 2")
    coefs = sorted(abs(float(t.get_coefficient(Var("x")))) / float(t.constant) for t in ts)
    exp = 1.0 if v == "some 2" else 0.5
    if not coefs or any(abs(c - exp) > 1e-12 for c in coefs):
        return f"'|x| + |x| <= 2' is read as {[str(t) for t in ts]}; the kept value combineNoneNone = {v}"
    return None


def probe_arith_fold() -> Optional[str]:
    from pacti.iocontract import Var

    fold = _const_value("arithFold") == "true"
    ts = _parse_terms("(2*3*4) x <= 1")
    c = float(ts[0].get_coefficient(Var("x")))
    if (abs(c - 24.0) < 1e-12) != fold:
        return f"'(2*3*4) x <= 1' is read with coefficient {c}; the kept flag arithFold = {fold}"
    return None


def probe_eq_outputs() -> Optional[str]:
    from pacti.contracts import PolyhedralIoContract

    flag = _const_value("eqComparesOutputs") == "true"
    c1 = PolyhedralIoContract.from_strings(input_vars=["x"], output_vars=["y"], assumptions=[], guarantees=["x <= 1"])
    c2 = PolyhedralIoContract.from_strings(input_vars=["x"], output_vars=["z"], assumptions=[], guarantees=["x <= 1"])
    if (c1 != c2) != flag:
        return f"contracts that differ only in their outputs compare {'different' if c1 != c2 else 'equal'}; kept flag eqComparesOutputs = {flag}"
    return None


def probe_str_zero() -> Optional[str]:
    flag = _const_value("strConstPlusZero") == "true"
    a, b = _terms(({"x": 1}, 0.0)).terms[0], _terms(({"x": 1}, -0.0)).terms[0]
    if (hash(a) == hash(b)) != flag:
        return f"hash(x <= 0.0) {'==' if hash(a) == hash(b) else '!='} hash(x <= -0.0); kept flag strConstPlusZero = {flag}"
    return None


def probe_empty_no_cols() -> Optional[str]:
    import numpy as np
    from pacti.terms.polyhedra import PolyhedralTermList

    flag = _const_value("emptyNoColsBySign") == "true"
    for b, want in (([-1.0], flag), ([1.0, -0.5], flag), ([0.0, 2.0], False)):
        got = bool(PolyhedralTermList.is_polytope_empty(np.zeros((len(b), 0)), np.array(b)))
        if got != want:
            return f"is_polytope_empty(no columns, b = {b}) = {got}; kept flag emptyNoColsBySign = {flag}"
    return None


PROBES: Dict[str, Callable[[], Optional[str]]] = {
    "Lists": probe_lists,
    "Consts.emptyNoColsBySign": probe_empty_no_cols,
    "Iface": probe_iface,
    "Consts.isolateSign": probe_isolate_sign,
    "Consts.tactic3Fresh": probe_tactic3_fresh,
    "Consts.containTol": probe_contain_tol,
    "Consts.reduceTol": probe_reduce_tol,
    "Consts.combineNoneNone": probe_combine,
    "Consts.arithFold": probe_arith_fold,
    "Consts.eqComparesOutputs": probe_eq_outputs,
    "Consts.strConstPlusZero": probe_str_zero,
    # eqCompoundComparesOutputs and the dictionary-validation flags have no separate probe: the correspondence streams of
    # C19 / C14 / C10 / C09 enumerate exactly the behaviour these flags describe
}


def run_probe(piece: str) -> Optional[str]:
    fn = PROBES.get(piece)
    if fn is None:
        return None
    try:
        return fn()
    except Exception as e:  # noqa
        return f"probe crashed: {type(e).__name__}: {str(e)[:200]}"
