"""Generators of structured polyhedral inputs (all choices from the rng given)."""
from __future__ import annotations

import random
from fractions import Fraction
from typing import Dict, List, Optional

from . import common as C

VARS = ["a", "b", "c", "d", "e", "f", "g", "h"]
SMALL = [-3, -2, -1, 1, 2, 3]
DYADIC = [-4.0, -2.0, -1.0, -0.5, 0.5, 1.0, 2.0, 4.0]


def rterm(rng: random.Random, vs: List[str], maxv: int = 3, coeffs=None, consts=None, force: Optional[str] = None) -> dict:
    coeffs = coeffs or SMALL
    k = rng.randint(1, min(maxv, len(vs)))
    chosen = rng.sample(vs, k)
    if force and force not in chosen:
        chosen[0] = force
    c = {v: float(rng.choice(coeffs)) for v in chosen}
    const = float(rng.choice(consts) if consts else rng.randint(-5, 8))
    return {"c": c, "k": const}


def rtl(rng: random.Random, vs: List[str], n: int, **kw) -> List[dict]:
    return [rterm(rng, vs, **kw) for _ in range(n)]


def feasible_tl(rng: random.Random, vs: List[str], n: int, point: Optional[Dict[str, float]] = None, slack=(0, 4), **kw) -> List[dict]:
    """terms satisfied by a planted point"""
    point = point or {v: float(rng.randint(-3, 3)) for v in vs}
    out = []
    for _ in range(n):
        t = rterm(rng, vs, **kw)
        val = sum(t["c"][v] * point[v] for v in t["c"])
        t["k"] = float(val + rng.randint(*slack))
        out.append(t)
    return out


def box_tl(vs: List[str], lo: float, hi: float) -> List[dict]:
    out = []
    for v in vs:
        out.append({"c": {v: 1.0}, "k": float(hi)})
        out.append({"c": {v: -1.0}, "k": float(-lo)})
    return out


def scale_term(t: dict, f: float) -> dict:
    return {"c": {v: c * f for v, c in t["c"].items()}, "k": t["k"] * f}


def add_terms(ts: List[dict], ws: List[float], extra: float = 0.0) -> dict:
    c: Dict[str, float] = {}
    k = extra
    for t, w in zip(ts, ws):
        for v, x in t["c"].items():
            c[v] = c.get(v, 0.0) + w * x
        k += w * t["k"]
    return {"c": {v: x for v, x in c.items() if x != 0}, "k": k}


# ---- to / from pacti objects ---------------------------------------------------------------------

def mk_term(d: dict):
    from pacti.iocontract import Var
    from pacti.terms.polyhedra import PolyhedralTerm

    return PolyhedralTerm({Var(v): c for v, c in d["c"].items()}, d["k"])


def mk_tl(l: List[dict]):
    from pacti.terms.polyhedra import PolyhedralTermList

    return PolyhedralTermList([mk_term(d) for d in l])


def un_term(t) -> dict:
    return {"c": {str(k): float(v) for k, v in t.variables.items()}, "k": float(t.constant)}


def un_tl(tl) -> List[dict]:
    return [un_term(t) for t in tl.terms]


def names_of(*tls: List[dict]) -> List[str]:
    s = set()
    for tl in tls:
        for t in tl:
            s.update(t["c"].keys())
    return sorted(s)


def w_term(d: dict, vm: C.VarMap) -> dict:
    return {"c": [[vm.i(v), C.qs(c)] for v, c in d["c"].items() if c != 0], "k": C.qs(d["k"])}


def w_tl(l: List[dict], vm: C.VarMap) -> list:
    return [w_term(d, vm) for d in l]


def holds_exact(t: dict, point: Dict[str, Fraction], tol: Fraction = Fraction(0)) -> bool:
    return sum(C.q(c) * point[v] for v, c in t["c"].items()) <= C.q(t["k"]) + tol


def mk_contract(c: dict, simplify: bool = True):
    from pacti.contracts import PolyhedralIoContract
    from pacti.iocontract import Var

    return PolyhedralIoContract(assumptions=mk_tl(c["a"]), guarantees=mk_tl(c["g"]), input_vars=[Var(x) for x in c["ins"]],
                                output_vars=[Var(x) for x in c["outs"]], simplify=simplify)


def un_contract(c) -> dict:
    return {"a": un_tl(c.a), "g": un_tl(c.g), "ins": [str(x) for x in c.inputvars], "outs": [str(x) for x in c.outputvars]}


def mk_key(t: dict):
    """pacti's term equality: same variable set, equal coefficients, equal constant (zeros dropped)"""
    return (tuple(sorted((v, float(c)) for v, c in t["c"].items() if c != 0)), float(t["k"]))


# ------------------------------------------------------------------------------------------------------
# bounded-exhaustive grids (thorough tiers)


def grid_rows(vs=("a", "b"), coefs=(-1, 0, 1), consts=(-1, 0, 1)) -> List[dict]:
    """every row over `vs` with coefficients in `coefs` (not all zero) and a constant in `consts`"""
    import itertools

    rows = []
    for cs in itertools.product(coefs, repeat=len(vs)):
        if not any(cs):
            continue
        for k in consts:
            rows.append({"c": {v: float(c) for v, c in zip(vs, cs) if c != 0}, "k": float(k)})
    return rows


def grid_lists(rows: List[dict], maxlen: int = 2) -> List[List[dict]]:
    """every ordered list of 1..maxlen rows"""
    import itertools

    out = []
    for n in range(1, maxlen + 1):
        for combo in itertools.product(rows, repeat=n):
            out.append([dict(c=dict(t["c"]), k=t["k"]) for t in combo])
    return out
