"""TermList instances over uninterpreted atoms, on which the UNMODIFIED `pacti.iocontract.IoContract` runs.

* `ScriptedTL`: primitives follow a script keyed by call site; a `fresh` answer is one atom whose name spells
  out the site and all arguments (mirrors lean/Pacti/Model/Sym.lean exactly) — used for the correspondence.
* `SemTL`: atoms carry the set of worlds (bitmask) where they hold; primitives return *random answers that meet
  their documented contracts in the given context and nothing more* — used by the judge to search for an
  interpretation in which the implementation's result violates the obligations of C01/C02/C08.
"""
from __future__ import annotations

import random
from typing import Dict, List, Optional

from . import common as C

C.setup_pacti()
from pacti.iocontract import IoContract, Term, TermList, Var  # noqa: E402


class Atom(Term):
    def __init__(self, name: str, vs: List[str], mask: int = 0):
        self.name = name
        self._vars = [Var(str(v)) for v in vs]
        self.mask = mask

    @property
    def vars(self):
        return list(self._vars)

    def contains_var(self, v):
        return v in self._vars

    def __eq__(self, o):
        return self.name == o.name

    def __str__(self):
        return self.name

    def __hash__(self):
        return hash(self.name)

    def __repr__(self):
        return self.name

    def copy(self):
        return Atom(self.name, [v.name for v in self._vars], self.mask)

    def rename_variable(self, a, b):
        return Atom(self.name + f"[{a.name}>{b.name}]", [(b.name if v == a else v.name) for v in self._vars], self.mask)


def atoms_str(l) -> str:
    return "[" + ",".join(t.name for t in l) + "]"


def vars_str(xs) -> str:
    return "[" + ",".join(str(x) for x in xs) + "]"


class Session:
    """per-run state shared by the term lists of one operation"""

    def __init__(self, op: str, script: Dict[str, object]):
        self.op = op
        self.script = script
        self.count: Dict[str, int] = {}
        self.log: List[tuple] = []

    def site(self, kind: str, has_ctx: bool = True) -> str:
        self.count[kind] = self.count.get(kind, 0) + 1
        k = self.count[kind]
        if kind == "simplify":
            return "ctor" if has_ctx else "simpA"
        if self.op == "compose":
            if kind == "refine":
                return "refA"
            if kind == "relax":
                return {1: "relG1", 2: "relG2", 3: "relAll"}.get(k, "user")
        if self.op == "quotient":
            if kind == "refines":
                return "qRef"
            if kind == "relax":
                return "qRelA"
            if kind == "refine":
                return {1: "qRefG1", 2: "qRefG2"}.get(k, "user")
        return "user"


SESSION: Optional[Session] = None


class ScriptedTL(TermList):
    def __hash__(self):
        return hash(tuple(self.terms))

    def contains_behavior(self, b):
        raise NotImplementedError

    def is_empty(self):
        return False

    def _elim(self, kind, context, vars_to_elim, simplify, tactics_order):
        s = SESSION
        site = s.site(kind)
        act = s.script.get(site, "id")
        s.log.append((site, [t.name for t in self.terms], [t.name for t in context.terms], [str(v) for v in vars_to_elim], bool(simplify)))
        if act == "err":
            raise ValueError("scripted failure at " + site)
        if isinstance(act, dict):
            name = (site + "(" + atoms_str(self.terms) + ";" + atoms_str(context.terms) + ";" + vars_str(vars_to_elim) + ";"
                    + ("T" if simplify else "F") + ";" + vars_str(tactics_order or []) + ")")
            return type(self)([Atom(name, act["fresh"])]), []
        if act == "filter":
            return type(self)([t.copy() for t in self.terms if not any(v in vars_to_elim for v in t.vars)]), []
        return type(self)([t.copy() for t in self.terms]), []

    def elim_vars_by_refining(self, context, vars_to_elim, simplify=True, tactics_order=None):
        return self._elim("refine", context, vars_to_elim, simplify, tactics_order)

    def elim_vars_by_relaxing(self, context, vars_to_elim, simplify=True, tactics_order=None):
        return self._elim("relax", context, vars_to_elim, simplify, tactics_order)

    def simplify(self, context=None):
        s = SESSION
        site = s.site("simplify", context is not None)
        act = s.script.get(site, "id")
        s.log.append((site, [t.name for t in self.terms], None if context is None else [t.name for t in context.terms]))
        if act == "err":
            raise ValueError("scripted failure at " + site)
        if isinstance(act, dict):
            name = site + "(" + atoms_str(self.terms) + ";" + ("None" if context is None else atoms_str(context.terms)) + ")"
            return type(self)([Atom(name, act["fresh"])])
        if act == "drop1":
            return type(self)([t.copy() for t in self.terms[1:]])
        return type(self)([t.copy() for t in self.terms])

    def refines(self, other):
        s = SESSION
        site = s.site("refines")
        act = s.script.get(site, "id")
        s.log.append((site, [t.name for t in self.terms], [t.name for t in other.terms]))
        if act == "err":
            raise ValueError("scripted failure at " + site)
        return act != "no"


# ------------------------------------------------------------------------------------------------------
# semantic term lists (judge)

NW = 6
FULL = (1 << NW) - 1


def conj(terms) -> int:
    m = FULL
    for t in terms:
        m &= t.mask
    return m


class SemSession:
    def __init__(self, rng: random.Random, fail_p: float = 0.1):
        self.rng = rng
        self.fail_p = fail_p
        self.k = 0
        self.log: List[tuple] = []

    def fresh(self, mask: int, vs: List[str]) -> Atom:
        self.k += 1
        return Atom(f"R{self.k}", vs, mask)


SEM: Optional[SemSession] = None


class SemTL(TermList):
    def __hash__(self):
        return hash(tuple(self.terms))

    def contains_behavior(self, b):
        raise NotImplementedError

    def is_empty(self):
        return conj(self.terms) == 0

    def _vars_left(self, vars_to_elim):
        """variables the fresh result may mention: everything mentioned by self except (usually) the eliminated ones"""
        s = SEM
        allv = []
        for t in self.terms:
            for v in t.vars:
                if v.name not in allv:
                    allv.append(v.name)
        elim = [str(v) for v in vars_to_elim]
        keep = [v for v in allv if v not in elim]
        if s.rng.random() < 0.25:  # leftover: a variable that could not be eliminated
            left = [v for v in allv if v in elim]
            if left:
                keep = keep + [s.rng.choice(left)]
        return keep

    def elim_vars_by_refining(self, context, vars_to_elim, simplify=True, tactics_order=None):
        s = SEM
        s.log.append(("refine", atoms_str(self.terms), atoms_str(context.terms), vars_str(vars_to_elim)))
        if s.rng.random() < s.fail_p:
            raise ValueError("semantic primitive declines")
        l, g = conj(self.terms), conj(context.terms)
        # any r with  Γ ∧ r ⇒ l :  r ⊆ l ∪ ¬Γ ; choose the WEAKEST-but-random such r to stress the caller
        r = (l | (FULL & ~g)) & (FULL if s.rng.random() < 0.5 else s.rng.randrange(FULL + 1) | l & g)
        return type(self)([s.fresh(r, self._vars_left(vars_to_elim))]), []

    def elim_vars_by_relaxing(self, context, vars_to_elim, simplify=True, tactics_order=None):
        s = SEM
        s.log.append(("relax", atoms_str(self.terms), atoms_str(context.terms), vars_str(vars_to_elim)))
        if s.rng.random() < s.fail_p:
            raise ValueError("semantic primitive declines")
        l, g = conj(self.terms), conj(context.terms)
        # any r with  Γ ∧ l ⇒ r :  r ⊇ l ∧ Γ ; choose the STRONGEST-but-random such r
        r = (l & g) | (0 if s.rng.random() < 0.5 else s.rng.randrange(FULL + 1) & l)
        return type(self)([s.fresh(r, self._vars_left(vars_to_elim))]), []

    def simplify(self, context=None):
        s = SEM
        s.log.append(("simplify", atoms_str(self.terms), None if context is None else atoms_str(context.terms)))
        if s.rng.random() < s.fail_p / 2:
            raise ValueError("semantic primitive declines")
        l = conj(self.terms)
        g = FULL if context is None else conj(context.terms)
        # equivalent to l wherever Γ holds, arbitrary elsewhere
        r = (l & g) | (s.rng.randrange(FULL + 1) & ~g & FULL)
        vs = []
        for t in self.terms:
            for v in t.vars:
                if v.name not in vs:
                    vs.append(v.name)
        if not self.terms:
            return type(self)([])
        return type(self)([s.fresh(r, vs)])

    def refines(self, other):
        s = SEM
        s.log.append(("refines", atoms_str(self.terms), atoms_str(other.terms)))
        if s.rng.random() < s.fail_p / 2:
            raise ValueError("semantic primitive declines")
        truth = conj(self.terms) & ~conj(other.terms) & FULL == 0
        # True only for containment; may also answer False for a containment (incomplete primitive)
        return truth and s.rng.random() < 0.85


def mk_sym_contract(cls, c: dict, masks: Optional[Dict[str, int]] = None, simplify: bool = False):
    def tl(atoms):
        return cls([Atom(a["n"], [str(v) for v in a["v"]], (masks or {}).get(a["n"], 0)) for a in atoms])

    return IoContract(tl(c["a"]), tl(c["g"]), [Var(str(v)) for v in c["ins"]], [Var(str(v)) for v in c["outs"]], simplify=simplify)


def un_sym_contract(c) -> dict:
    return {"a": [{"n": t.name, "v": [int(v.name) for v in t.vars]} for t in c.a.terms],
            "g": [{"n": t.name, "v": [int(v.name) for v in t.vars]} for t in c.g.terms],
            "ins": [int(v.name) for v in c.inputvars], "outs": [int(v.name) for v in c.outputvars]}
