"""Shared infrastructure of the pacti verification harness.

Everything that touches pacti goes through `setup_pacti()`, which forces the import to come from
/repo/src (or $PACTI_SRC for the self-test of mutants) and asserts it: /venv/site-packages holds a
*different* pacti.
"""
from __future__ import annotations

import hashlib
import json
import os
import random
import subprocess
import sys
import time
import warnings
from fractions import Fraction
from typing import Any, Dict, Iterable, List, Optional, Tuple

VERIF = os.path.dirname(os.path.dirname(os.path.abspath(__file__)))
LEAN_DIR = os.path.join(VERIF, "lean")
DRIVER = os.path.join(LEAN_DIR, ".lake", "build", "bin", "pdriver")
REPO = os.environ.get("PACTI_REPO", "/repo")
PACTI_SRC = os.environ.get("PACTI_SRC", os.path.join(REPO, "src"))

_pacti_ready = False


def setup_pacti() -> None:
    """Import pacti from the tree under verification, never from site-packages."""
    global _pacti_ready
    if _pacti_ready:
        return
    warnings.filterwarnings("ignore")
    os.environ.setdefault("MPLBACKEND", "Agg")
    if PACTI_SRC in sys.path:
        sys.path.remove(PACTI_SRC)
    sys.path.insert(0, PACTI_SRC)
    for m in [k for k in sys.modules if k == "pacti" or k.startswith("pacti.")]:
        del sys.modules[m]
    import pacti  # noqa

    f = os.path.realpath(pacti.__file__)
    if not f.startswith(os.path.realpath(PACTI_SRC) + os.sep):
        raise SystemExit(f"INFRA: pacti imported from {f}, expected under {PACTI_SRC}")
    _pacti_ready = True


# ------------------------------------------------------------------------------------------------
# numbers and terms on the wire


def q(x: Any) -> Fraction:
    """exact rational denoted by a Python number"""
    if isinstance(x, Fraction):
        return x
    if isinstance(x, bool):
        return Fraction(int(x))
    if isinstance(x, int):
        return Fraction(x)
    try:
        import numpy as np

        if isinstance(x, (np.floating, np.integer)):
            x = x.item()
    except Exception:
        pass
    if isinstance(x, float):
        if x != x or x in (float("inf"), float("-inf")):
            raise ValueError("non-finite number")
        return Fraction(x)
    try:  # sympy numbers
        return Fraction(float(x))
    except Exception:
        raise


def qs(x: Any) -> str:
    f = q(x)
    return str(f.numerator) if f.denominator == 1 else f"{f.numerator}/{f.denominator}"


def unq(s: Any) -> Fraction:
    if isinstance(s, (int,)):
        return Fraction(s)
    return Fraction(s)


class VarMap:
    """variable names <-> model indices; index order = name order ("_" is 0)"""

    def __init__(self, names: Iterable[str]):
        ns = sorted(set(names) - {"_"})
        self.idx = {"_": 0}
        for i, n in enumerate(ns):
            self.idx[n] = i + 1
        self.names = {v: k for k, v in self.idx.items()}

    def i(self, name: str) -> int:
        return self.idx[str(name)]

    def n(self, i: int) -> str:
        return self.names[i]

    def vars(self, names: Iterable[Any]) -> List[int]:
        return [self.idx[str(n)] for n in names]


def term_names(t) -> List[str]:
    return [str(v) for v in t.variables.keys()]


def term_to_wire(t, vm: VarMap) -> dict:
    """a PolyhedralTerm -> wire (coefficients in the term's dict order; the model normalises)"""
    return {"c": [[vm.i(str(k)), qs(v)] for k, v in t.variables.items()], "k": qs(t.constant)}


def tl_to_wire(tl, vm: VarMap) -> list:
    return [term_to_wire(t, vm) for t in tl.terms]


def wire_term_key(w: dict) -> Tuple:
    """canonical exact key of a wire term (sorted coefficients, zeros dropped)"""
    cs = sorted((int(x), Fraction(c)) for x, c in w["c"] if Fraction(c) != 0)
    return (tuple(cs), Fraction(w["k"]))


def terms_close(w1: dict, w2: dict, rtol: float = 1e-9) -> bool:
    """structure exactly (same variables), numbers within rtol*max(1,|x|).  A coefficient below rtol*max(1, largest
    coefficient of the term) counts as absent: it is float cancellation residue (exact arithmetic gives 0, or vice versa)."""
    (c1, k1), (c2, k2) = wire_term_key(w1), wire_term_key(w2)
    big = max([1] + [abs(a) for _, a in c1] + [abs(a) for _, a in c2])
    c1 = [(x, a) for x, a in c1 if abs(a) > rtol * big]
    c2 = [(x, a) for x, a in c2 if abs(a) > rtol * big]
    if [x for x, _ in c1] != [x for x, _ in c2]:
        return False
    for (_, a), (_, b) in zip(c1, c2):
        if abs(a - b) > rtol * max(1, abs(a), abs(b)):
            return False
    return abs(k1 - k2) <= rtol * max(1, abs(k1), abs(k2))


def tls_close(l1: list, l2: list, rtol: float = 1e-9) -> bool:
    return len(l1) == len(l2) and all(terms_close(a, b, rtol) for a, b in zip(l1, l2))


def wire_to_str(w: dict, vm: Optional[VarMap] = None) -> str:
    nm = (lambda i: vm.n(i)) if vm else (lambda i: f"v{i}")
    lhs = " + ".join(f"{c}*{nm(int(x))}" for x, c in w["c"]) or "0"
    return f"{lhs} <= {w['k']}"


# ------------------------------------------------------------------------------------------------
# exception classification (section 3.5 of DESIGN.md)


def classify_exc(e: BaseException) -> str:
    setup_pacti()
    import pyparsing as pp
    from pacti.utils.errors import (
        ContractFormatError,
        IncompatibleArgsError,
        PolyhedralSyntaxConvexException,
        PolyhedralSyntaxException,
    )

    if isinstance(e, IncompatibleArgsError):
        return "IncompatibleArgsError"
    if isinstance(e, PolyhedralSyntaxConvexException):
        return "ConvexError"
    if isinstance(e, PolyhedralSyntaxException):
        return "SyntaxError"
    if isinstance(e, pp.ParseBaseException):
        return "SyntaxError"
    if isinstance(e, ContractFormatError):
        return "ContractFormatError"
    if isinstance(e, ValueError):
        return "ValueError"
    return "py:" + type(e).__name__


DOCUMENTED = {"IncompatibleArgsError", "ValueError", "SyntaxError", "ConvexError", "ContractFormatError"}


# ------------------------------------------------------------------------------------------------
# the Lean driver (line protocol)


class DriverError(Exception):
    pass


def run_driver(requests: List[dict], timeout: float = 900.0, nproc: int = 1) -> List[dict]:
    """send requests (each gets an `id`), return responses in request order"""
    if not requests:
        return []
    if not os.path.exists(DRIVER):
        raise DriverError(f"driver binary missing: {DRIVER}")
    for i, r in enumerate(requests):
        r["id"] = i
    if nproc <= 1 or len(requests) < 64:
        chunks = [requests]
    else:
        k = min(nproc, max(1, len(requests) // 32))
        chunks = [requests[i::k] for i in range(k)]
    procs = []
    for ch in chunks:
        p = subprocess.Popen([DRIVER], stdin=subprocess.PIPE, stdout=subprocess.PIPE, stderr=subprocess.PIPE, text=True)
        procs.append((p, ch))
    import threading

    outs: List[Optional[str]] = [None] * len(procs)
    errs: List[Optional[str]] = [None] * len(procs)

    def work(k):
        p, ch = procs[k]
        data = "".join(json.dumps(r, separators=(",", ":")) + "\n" for r in ch)
        try:
            o, e = p.communicate(data, timeout=timeout)
        except subprocess.TimeoutExpired:
            p.kill()
            o, e = p.communicate()
            e = (e or "") + "\nTIMEOUT"
        outs[k], errs[k] = o, e

    ths = [threading.Thread(target=work, args=(k,)) for k in range(len(procs))]
    for t in ths:
        t.start()
    for t in ths:
        t.join()
    res: List[Optional[dict]] = [None] * len(requests)
    for k, (p, ch) in enumerate(procs):
        lines = [l for l in (outs[k] or "").splitlines() if l.strip()]
        if len(lines) != len(ch):
            raise DriverError(f"driver answered {len(lines)} of {len(ch)} requests; stderr: {(errs[k] or '')[-2000:]}")
        for l in lines:
            o = json.loads(l)
            res[o["id"]] = o
    for i, o in enumerate(res):
        if o is None:
            raise DriverError(f"missing response {i}")
    return res  # type: ignore


# ------------------------------------------------------------------------------------------------
# Lean build / audit


def sh(cmd: List[str], cwd: Optional[str] = None, timeout: float = 3600, env: Optional[dict] = None) -> Tuple[int, str]:
    try:
        p = subprocess.run(cmd, cwd=cwd, capture_output=True, text=True, timeout=timeout, env=env)
        return p.returncode, p.stdout + p.stderr
    except subprocess.TimeoutExpired as e:
        return 124, f"TIMEOUT {cmd}"


def lake_build(targets: List[str]) -> Tuple[bool, str]:
    rc, out = sh(["lake", "build"] + targets, cwd=LEAN_DIR, timeout=3000)
    return rc == 0, out


FORBIDDEN = ["sorry", "admit", "native_decide", "bv_decide", "implemented_by", "unsafe ", "maxHeartbeats 0"]
ALLOWED_AXIOMS = {"propext", "Classical.choice", "Quot.sound"}


def strip_lean_comments(src: str) -> str:
    out = []
    i, n, depth = 0, len(src), 0
    while i < n:
        if src.startswith("/-", i):
            depth += 1
            i += 2
        elif depth and src.startswith("-/", i):
            depth -= 1
            i += 2
        elif depth:
            i += 1
        elif src.startswith("--", i):
            j = src.find("\n", i)
            i = n if j < 0 else j
        else:
            out.append(src[i])
            i += 1
    return "".join(out)


def grep_audit() -> List[str]:
    """forbidden constructs outside comments in the Lean sources (Model, Gen, Proofs, Props, Driver)"""
    hits = []
    import re

    for root, _, files in os.walk(LEAN_DIR):
        if ".lake" in root:
            continue
        for f in files:
            if not f.endswith(".lean"):
                continue
            p = os.path.join(root, f)
            src = strip_lean_comments(open(p).read())
            for ln, line in enumerate(src.splitlines(), 1):
                for w in FORBIDDEN:
                    if w in line:
                        hits.append(f"{os.path.relpath(p, LEAN_DIR)}:{ln}: {w.strip()}")
                if re.match(r"^\s*axiom\s", line):
                    hits.append(f"{os.path.relpath(p, LEAN_DIR)}:{ln}: axiom")
    return hits


def axioms_of(module: str, theorems: List[str]) -> Dict[str, List[str]]:
    """`#print axioms` for each theorem (run in a scratch file under lean/.lake)"""
    scratch = os.path.join(LEAN_DIR, ".lake", f"Audit_{module.replace('.', '_')}.lean")
    with open(scratch, "w") as f:
        f.write(f"import {module}\n")
        for t in theorems:
            f.write(f"#print axioms {t}\n")
    rc, out = sh(["lake", "env", "lean", scratch], cwd=LEAN_DIR, timeout=1200)
    res: Dict[str, List[str]] = {}
    import re

    # output: "'name' depends on axioms: [a, b]" or "'name' does not depend on any axioms"
    for m in re.finditer(r"'([^']+)' depends on axioms: \[([^\]]*)\]", out.replace("\n", " ")):
        res[m.group(1)] = [a.strip() for a in m.group(2).split(",") if a.strip()]
    for m in re.finditer(r"'([^']+)' does not depend on any axioms", out):
        res[m.group(1)] = []
    if rc != 0:
        res["__error__"] = [out[-3000:]]
    return res


def gen_status_kept() -> Dict[str, str]:
    """generated pieces whose source shape the translator did not recognise in this run (it kept the previous definition)"""
    path = os.path.join(LEAN_DIR, "Pacti", "Gen", "STATUS.json")
    try:
        st = json.load(open(path))
    except Exception:  # noqa
        return {}
    return {k: v[6:] for k, v in st.items() if isinstance(v, str) and v.startswith("kept: ")}


def gen_pieces_used(modules: List[str]) -> List[str]:
    """which generated pieces (Lists, Iface, Consts.<name>) the Lean modules behind `modules` mention"""
    import re

    used = set()
    text = ""
    for m in local_import_closure(modules):
        if m.startswith("Pacti.Gen."):
            if m in ("Pacti.Gen.Lists", "Pacti.Gen.Iface"):
                used.add(m.split(".")[-1])
            continue
        text += open(os.path.join(LEAN_DIR, *m.split(".")) + ".lean").read()
    try:
        consts = re.findall(r"^def (\w+)", open(os.path.join(LEAN_DIR, "Pacti", "Gen", "Consts.lean")).read(), flags=re.M)
    except OSError:
        consts = []
    for c in consts:
        if re.search(r"\bGen\." + c + r"\b", text) or re.search(r"(?<![\w.])" + c + r"\b", text):
            used.add("Consts." + c)
    return sorted(used)


def local_import_closure(modules: List[str]) -> List[str]:
    """the project's own modules (Pacti.*) that `modules` import, transitively, themselves included"""
    import re

    seen: List[str] = []
    todo = list(modules)
    while todo:
        m = todo.pop()
        if m in seen:
            continue
        path = os.path.join(LEAN_DIR, *m.split(".")) + ".lean"
        if not os.path.exists(path):
            continue
        seen.append(m)
        for im in re.findall(r"^import\s+(Pacti(?:\.[A-Za-z0-9_]+)*)\s*$", open(path).read(), flags=re.M):
            todo.append(im)
    return sorted(seen)


def leanchecker(modules: List[str], nproc: int = 6) -> Tuple[bool, str, List[str]]:
    """replay every declaration of the project's modules behind `modules` through Lean's independent re-checker
    (`leanchecker`, the kernel only, from the compiled .olean files); imports from the toolchain / Mathlib are taken as
    compiled."""
    import concurrent.futures as cf

    mods = local_import_closure(modules)
    chunks = [mods[i::nproc] for i in range(nproc) if mods[i::nproc]]

    def one(ch):
        return sh(["lake", "env", "leanchecker"] + ch, cwd=LEAN_DIR, timeout=3000)

    with cf.ThreadPoolExecutor(len(chunks) or 1) as ex:
        res = list(ex.map(one, chunks))
    bad = [out[-1500:] for rc, out in res if rc != 0]
    return not bad, "\n".join(bad), mods


# ------------------------------------------------------------------------------------------------
# evidence, findings, replays


def write_evidence(pid: str, tier: str, seed: int, level: str, coverage: dict, wall: float, violations: int,
                   assumptions: List[str]) -> str:
    os.makedirs(os.path.join(VERIF, "evidence"), exist_ok=True)
    path = os.path.join(VERIF, "evidence", f"{pid}.json")
    ev = {
        "property_id": pid,
        "tier": tier,
        "seed": int(seed),
        "level": level,
        "coverage": coverage,
        "assumptions": assumptions,
        "wall_s": round(wall, 2),
        "violations": int(violations),
    }
    with open(path, "w") as f:
        json.dump(ev, f, indent=1, default=str)
    return path


def load_findings() -> List[dict]:
    p = os.path.join(VERIF, "known_findings.json")
    if not os.path.exists(p):
        return []
    return json.load(open(p)).get("findings", [])


def write_replay(pid: str, payload: dict) -> str:
    d = os.path.join(VERIF, "replays")
    os.makedirs(d, exist_ok=True)
    blob = json.dumps(payload, sort_keys=True, default=str)
    h = hashlib.sha1(blob.encode()).hexdigest()[:12]
    path = os.path.join(d, f"{pid}-{h}.json")
    with open(path, "w") as f:
        json.dump(payload, f, indent=1, default=str)
    return os.path.relpath(path, VERIF)


def seed_from_env() -> int:
    try:
        return int(os.environ.get("VERIF_SEED", "0"))
    except ValueError:
        return 0


def hexf(x: float) -> str:
    return float(x).hex()
