"""Polyhedral contract pairs for C01 / C02 / C08 / C15 / C16: generators, implementation runners, judges."""
from __future__ import annotations

import random
from fractions import Fraction
from typing import Dict, List, Optional, Tuple

from . import common as C
from . import gen as G
from . import judge as J
from .props.c04 import _wrap_tlp, wire_hints

K = [1.0, 2.0, 3.0, 0.5]


def _sgn(rng):
    return rng.choice([-1.0, 1.0])


def bound_terms(rng, vs, pt, n):
    out = []
    for _ in range(n):
        v = rng.choice(vs)
        s = _sgn(rng)
        out.append({"c": {v: s}, "k": float(s * pt[v] + rng.randint(0, 3))})
    return out


def rel_terms(rng, vs_all, must, pt, n):
    """terms over vs_all each mentioning a variable of `must`, satisfied at pt"""
    out = []
    for _ in range(n):
        k = rng.randint(1, min(3, len(vs_all)))
        chosen = rng.sample(vs_all, k)
        if must and not set(chosen) & set(must):
            chosen[0] = rng.choice(must)
        c = {v: _sgn(rng) * rng.choice(K) for v in chosen}
        val = sum(c[v] * pt[v] for v in c)
        out.append({"c": c, "k": float(val + rng.randint(0, 3))})
    return out


def gen_pair(rng: random.Random, overlap: float = 0.15) -> Tuple[dict, dict, str]:
    w = rng.choice(["independent", "cascade", "cascade", "cascade-rev", "shared-in", "feedback", "feedback-free", "multi", "kay3", "mutual", "near-asm"])
    if w == "near-asm":
        # the consumer's assumption is ALMOST a producer guarantee (one coefficient 6e-6 .. 1e-5 away, relative): it must be
        # discharged semantically (leaving a small-coefficient assumption on the shared input), never dropped as "the same term"
        k0 = float(rng.randint(-2, 4))
        ci = float(rng.choice([1, 2, 3])) * rng.choice([-1.0, 1.0])
        sx = rng.choice([1.0, -1.0])
        d = rng.choice([6e-6, 7.5e-6, 1e-5]) * rng.choice([-1.0, 1.0])
        c1 = {"ins": ["i"], "outs": ["x"], "a": [] if rng.random() < 0.5 else [{"c": {"i": rng.choice([1.0, -1.0])}, "k": float(rng.randint(1, 5))}],
              "g": [{"c": {"x": sx, "i": ci}, "k": k0}]}
        if rng.random() < 0.5:
            c1["g"].append({"c": {"x": -sx}, "k": float(rng.randint(0, 5))})
        c2 = {"ins": ["x", "i"], "outs": ["o"], "a": [{"c": {"x": sx, "i": ci * (1.0 + d)}, "k": k0}],
              "g": [{"c": {"o": 1.0, "x": -1.0}, "k": float(rng.randint(0, 3))}]}
        if rng.random() < 0.5:
            c1, c2 = c2, c1
        return c1, c2, w
    if w == "mutual":
        # the consumer assumes two bounds on the same internal variable in the same direction (x + y <= 6, y <= 5); the producer
        # bounds x but y only through a chain of its outputs, or not at all: each assumption may only be discharged with the
        # ALREADY TRANSFORMED siblings as helpers, never with the original ones (circular reasoning)
        sg = rng.choice([1.0, -1.0])
        k = lambda: float(rng.choice([1, 2, 3]))  # noqa: E731
        c1 = {"ins": ["i"], "outs": ["x", "y", "q"], "a": [{"c": {"i": sg}, "k": float(rng.randint(0, 4))}] if rng.random() < 0.6 else [],
              "g": [{"c": {"x": sg * k(), "i": -sg * k()}, "k": float(rng.randint(0, 3))}]}
        r = rng.random()
        if r < 0.4:
            c1["g"] += [{"c": {"y": sg, "q": -sg}, "k": float(rng.randint(0, 2))}, {"c": {"q": sg, "i": -sg}, "k": float(rng.randint(0, 2))}]
        elif r < 0.55:
            c1["g"] += [{"c": {"y": sg * k(), "i": -sg * k()}, "k": float(rng.randint(0, 3))}]
        c2 = {"ins": ["x", "y"], "outs": ["o"],
              "a": [{"c": {"x": sg * k(), "y": sg * k()}, "k": float(rng.randint(2, 8))}, {"c": {"y": sg * k()}, "k": float(rng.randint(1, 6))}],
              "g": [{"c": {"o": 1.0, "x": -1.0}, "k": float(rng.randint(0, 3))}]}
        if rng.random() < 0.3:
            c2["a"].reverse()
        if rng.random() < 0.5:
            c1, c2 = c2, c1
        return c1, c2, w
    if w == "kay3":
        # three internal variables; the producer bounds them below through a diagonally dominant (or just not dominant) system,
        # the consumer's guarantee sums them: the composition must relax it through all three rows or drop it
        o1, o3 = rng.choice([(0.6, 0.6), (0.5, 0.5), (0.75, 0.5), (0.5, 0.25), (0.25, 0.25)])
        c1 = {"ins": ["i", "j", "p"], "outs": ["x", "y", "q"], "a": [],
              "g": [{"c": {"i": 1.0, "x": -1.0, "y": -o1}, "k": float(rng.randint(0, 2))}, {"c": {"j": 1.0, "y": -1.0}, "k": float(rng.randint(0, 2))},
                    {"c": {"p": 1.0, "q": -1.0, "y": -o3}, "k": float(rng.randint(0, 2))}]}
        c2 = {"ins": ["x", "y", "q"], "outs": ["o"], "a": [], "g": [{"c": {"x": 1.0, "y": 1.0, "q": 1.0, "o": -1.0}, "k": float(rng.randint(0, 3))}]}
        if rng.random() < 0.5:
            c1, c2 = c2, c1
        return c1, c2, w
    names = ["i", "j", "x", "y", "o", "p", "q"]
    pt = {v: float(rng.randint(-2, 2)) for v in names}
    if w == "independent":
        c1 = dict(ins=["i"], outs=["x"])
        c2 = dict(ins=["j"], outs=["o"])
    elif w in ("cascade", "cascade-rev"):
        c1 = dict(ins=["i"], outs=["x"] + (["y"] if rng.random() < 0.4 else []))
        c2 = dict(ins=["x"] + (["y"] if "y" in c1["outs"] and rng.random() < 0.7 else []) + (["j"] if rng.random() < 0.4 else []), outs=["o"])
    elif w == "shared-in":
        c1 = dict(ins=["i", "j"], outs=["x"])
        c2 = dict(ins=["i"], outs=["o"])
    elif w in ("feedback", "feedback-free"):
        c1 = dict(ins=["i", "y"], outs=["x"])
        c2 = dict(ins=["x"], outs=["y", "o"])
    else:
        c1 = dict(ins=["i", "j"], outs=["x", "y"])
        c2 = dict(ins=["x", "j"], outs=["o", "p"])
    for c, tag in ((c1, 1), (c2, 2)):
        ains = list(c["ins"])
        if w == "feedback-free" and tag == 1:
            ains = ["i"]       # no assumption on the fed-back input
        if w == "feedback-free" and tag == 2:
            ains = []
        c["a"] = bound_terms(rng, ains, pt, rng.randint(0, 2)) if ains else []
        if rng.random() < 0.3 and len(ains) >= 2:
            c["a"] += rel_terms(rng, ains, [], pt, 1)
        c["g"] = rel_terms(rng, c["ins"] + c["outs"], c["outs"], pt, rng.randint(1, 3))
        if rng.random() < 0.5:
            c["g"] += bound_terms(rng, c["outs"], pt, 1)
    if rng.random() < overlap:
        # an interface-level guarantee present on both sides (shared input bound, identical or scaled)
        shared = [v for v in c1["ins"] if v in c2["ins"]] or [v for v in c1["ins"]]
        v = rng.choice(shared)
        t = {"c": {v: 1.0}, "k": float(pt[v] + rng.randint(0, 3))}
        c1["g"].append(dict(c=dict(t["c"]), k=t["k"]))
        if v in c2["ins"] + c2["outs"]:
            c2["g"].append(G.scale_term(t, rng.choice([1.0, 1.0, 2.0])))
    if w == "cascade-rev":
        c1, c2 = c2, c1
    if rng.random() < 0.06:
        # infeasible / degenerate operand
        t = rng.choice(c1["g"])
        c1["g"].append({"c": {v: -x for v, x in t["c"].items()}, "k": -t["k"] - 1.0})
    return c1, c2, w


def all_names(*cs) -> List[str]:
    s = set()
    for c in cs:
        s.update(c["ins"])
        s.update(c["outs"])
        s.update(G.names_of(c["a"], c["g"]))
    return sorted(s)


def w_contract(c: dict, vm: C.VarMap) -> dict:
    return {"a": G.w_tl(c["a"], vm), "g": G.w_tl(c["g"], vm), "ins": vm.vars(c["ins"]), "outs": vm.vars(c["outs"])}


def contract_close(impl_c: dict, model_c: dict, vm: C.VarMap) -> bool:
    try:
        if vm.vars(impl_c["ins"]) != [int(x) for x in model_c["ins"]] or vm.vars(impl_c["outs"]) != [int(x) for x in model_c["outs"]]:
            return False
        return C.tls_close(G.w_tl(impl_c["a"], vm), model_c["a"]) and C.tls_close(G.w_tl(impl_c["g"], vm), model_c["g"])
    except KeyError:
        # the implementation's result mentions a variable that occurs nowhere in the request (a result handed over from another
        # call): certainly not the model's result — a disagreement, not a harness error
        return False


def has_residue_term(cj: dict) -> bool:
    """a term all of whose coefficients are float cancellation residue (|c| <= 1e-9): exact arithmetic has no such term"""
    for t in list(cj.get("a", [])) + list(cj.get("g", [])):
        cs = [abs(float(v)) for v in t["c"].values()]
        if cs and max(cs) <= 1e-9:
            return True
    return False


def _dedupe_close(cj: dict, vm: C.VarMap) -> Optional[dict]:
    """the contract with every term dropped that is within 1e-12 (relative) of an assumption or of an earlier term of the same list
    without being identical to it; None if nothing was dropped"""
    def close(t, u):
        return t != u and C.terms_close(G.w_term(t, vm), G.w_term(u, vm), rtol=1e-12)

    dropped = False
    a_out: List[dict] = []
    for t in cj["a"]:
        if any(close(t, u) for u in a_out):
            dropped = True
            continue
        a_out.append(t)
    g_out: List[dict] = []
    for t in cj["g"]:
        if any(close(t, u) for u in a_out + g_out):
            dropped = True
            continue
        g_out.append(t)
    if not dropped:
        return None
    return {"a": a_out, "g": g_out, "ins": cj["ins"], "outs": cj["outs"]}


def compare_contract_result(impl: dict, model: dict, vm: C.VarMap) -> Optional[str]:
    alts = [model, model.get("alt", model)]
    if "err" in impl:
        if any(a.get("err") == impl["err"] for a in alts):
            return None
        if any(a.get("err") == impl["err"] for a in model.get("near", [])):
            return "TIE: float near-tie (reproduced when every LP optimum is nudged by 1e-10 or every LP is solved inside |v| <= 1e9: float near-tie or a slope below float resolution)"
        return f"impl {impl['err']} vs model {[a.get('err', 'ok') for a in alts]}"
    for a in alts:
        if "ok" in a and contract_close(impl["ok"], a["ok"], vm):
            return None
    import json

    for a in model.get("near", []):
        if ("err" in impl and a.get("err") == impl["err"]) or ("ok" in impl and "ok" in a and contract_close(impl["ok"], a["ok"], vm)):
            return "TIE: float near-tie (reproduced when every LP optimum is nudged by 1e-10 or every LP is solved inside |v| <= 1e9: float near-tie or a slope below float resolution)"
    sa, sb = ({k: v for k, v in a.items() if k not in ("id", "alt", "near")} for a in alts)
    if json.dumps(sa, sort_keys=True) != json.dumps(sb, sort_keys=True):
        return "TIE: exact ties / tolerance-band verdicts resolved in a mixed way"
    if "ok" in impl:
        # two terms that are the same term in exact arithmetic but were computed along different float paths (4/3 as
        # 1.3333333333333335 and 1.3333333333333333) are not `==` for the implementation, so a duplicate survives that the exact
        # model removes syntactically: compare again with such last-bit duplicates removed from the implementation's result
        d = _dedupe_close(impl["ok"], vm)
        if d is not None and any("ok" in a and contract_close(d, a["ok"], vm) for a in alts):
            return "TIE: float rounding (a term of the result duplicates another one up to the last bits; exact arithmetic merges them)"
    a = alts[0]
    if "ok" in impl and has_residue_term(impl["ok"]):
        return "TIE: float cancellation residue (the implementation's result has a term whose every coefficient is below 1e-9)"
    if "err" in a:
        return f"impl ok vs model {a['err']}"
    return "impl " + str(impl["ok"])[:500] + " vs model a=" + str([C.wire_to_str(t, vm) for t in a["ok"]["a"]]) + " g=" + str([C.wire_to_str(t, vm) for t in a["ok"]["g"]]) \
        + f" ins={a['ok']['ins']} outs={a['ok']['outs']}"


def operand_damage(pairs) -> Optional[str]:
    """after an operation raised: every operand must still be what it was built from, and usable (C14: "an error leaves all
    operands usable").  pairs = [(specification dictionary, live contract object)]"""
    for n, (spec, obj) in enumerate(pairs):
        try:
            now = G.un_contract(obj)
            was = G.un_contract(G.mk_contract(spec, simplify=False))
        except Exception as e:  # noqa
            return f"operand {n} cannot be read back after the error: {type(e).__name__}: {str(e)[:120]}"
        if now != was:
            return f"operand {n} changed from {was} to {now}"
        try:
            G.mk_contract(spec, simplify=False).copy()
        except Exception:  # noqa
            continue     # the operand was unusable to begin with (an unsatisfiable contract built without simplification)
        try:
            obj.copy()
        except Exception as e:  # noqa
            return f"operand {n}.copy() raises {type(e).__name__} after the error: {str(e)[:120]}"
    return None


def run_op(case: dict) -> dict:
    """compose / quotient / merge on the real PolyhedralIoContract, with tactic-5 hints recorded"""
    hints: list = []
    undo = _wrap_tlp(hints)
    try:
        try:
            c1 = G.mk_contract(case["c1"], simplify=False)
            c2 = G.mk_contract(case["c2"], simplify=False)
        except Exception as e:
            return {"err": C.classify_exc(e), "stage": "operands", "hints": []}
        op = case["op"]
        from pacti.iocontract import Var

        try:
            if op == "compose":
                r, used = c1.compose_tactics(c2, list(case["keep"]), case["simplify"], list(case["order"]))
            elif op == "quotient":
                r, used = c1.quotient_tactics(c2, [Var(v) for v in case["addl"]], case["simplify"], list(case["order"]))
            else:
                r, used = c1.merge(c2), []
        except Exception as e:
            out = {"err": C.classify_exc(e), "msg": str(e)[:200], "hints": hints}
            dmg = operand_damage([(case["c1"], c1), (case["c2"], c2)])
            if dmg:
                out["damage"] = dmg
            return out
        return {"ok": G.un_contract(r), "tactics": [[int(u[0]) for u in lst] for lst in used], "hints": hints}
    finally:
        undo()


def model_req(case: dict, impl: dict) -> dict:
    vm = C.VarMap(all_names(case["c1"], case["c2"]) + case.get("keep", []) + case.get("addl", []))
    return {"op": case["op"], "c1": w_contract(case["c1"], vm), "c2": w_contract(case["c2"], vm), "keep": vm.vars(case.get("keep", [])),
            "addl": vm.vars(case.get("addl", [])), "simplify": case.get("simplify", True), "order": case.get("order", []),
            "hints": wire_hints(impl.get("hints", []), vm), "hint_xs": []}


def case_vm(case: dict) -> C.VarMap:
    return C.VarMap(all_names(case["c1"], case["c2"]) + case.get("keep", []) + case.get("addl", []))


# ------------------------------------------------------------------------------------------------------
# judges (exact, independent of the Lean model)


def entails_batch(problems: List[Tuple[List[dict], dict]], tol=J.TOL, box=J.BOX):
    """problems: (hypotheses, goal) -> list of None (entailed within tolerance inside the box) or violating point"""
    if not problems:
        return []
    names = sorted(set(n for hyps, goal in problems for n in G.names_of(hyps, [goal])))
    vm = C.VarMap(names)
    bx = G.box_tl(names, -box, box)
    res = J.lp_batch([(goal["c"], hyps + bx) for hyps, goal in problems], vm)
    out = []
    for (hyps, goal), r in zip(problems, res):
        if r["status"] == "infeasible":
            out.append(None)
            continue
        if r["status"] != "optimal":
            raise RuntimeError("judge LP " + r["status"])
        k = C.q(goal["k"])
        if Fraction(r["m"]) > k + tol * (1 + abs(k)):
            pt = {n: Fraction(0) for n in names}
            for x, c in r["x"]:
                pt[vm.n(int(x))] = Fraction(c)
            out.append(pt)
        else:
            out.append(None)
    return out


def honour_cases(c: dict) -> List[List[dict]]:
    """the ways a component can honour its contract at a point: all guarantees hold, or one assumption fails by > 1e-7"""
    return [list(c["g"])] + [[J.neg_term(t)] for t in c["a"]]


def judge_sound(res_a: List[dict], comps: List[dict], conclusions: List[dict]) -> Optional[dict]:
    """∃ point in the box with res_a, every component honouring its contract, and a conclusion violated beyond tolerance?"""
    import itertools

    problems, meta = [], []
    for combo in itertools.product(*[honour_cases(c) for c in comps]):
        hyps = list(res_a) + [t for part in combo for t in part]
        for goal in conclusions:
            problems.append((hyps, goal))
            meta.append(goal)
    for pt, goal in zip(entails_batch(problems), meta):
        if pt is not None:
            return {"goal": goal, "point": J.pt_str(pt)}
    return None


def judge_equiv(hyp: List[dict], left: List[dict], right: List[dict]) -> Optional[dict]:
    """under hyp: left ⊨ every term of right and right ⊨ every term of left"""
    problems = [(hyp + left, t) for t in right] + [(hyp + right, t) for t in left]
    goals = [("right", t) for t in right] + [("left", t) for t in left]
    for pt, (side, t) in zip(entails_batch(problems), goals):
        if pt is not None:
            return {"not_implied": t, "side": side, "point": J.pt_str(pt)}
    return None
