import Mathlib.Tactic.Linarith
import Mathlib.Tactic.Ring
import Mathlib.Algebra.Order.Field.Rat
import Mathlib.Algebra.Order.AbsoluteValue.Basic

/-! Spike: the sign-expansion of absolute values used by the parser (C09).
    `ts` is the list of (coefficient, value of the inner linear form at the point). -/

def absSum : List (Rat × Rat) → Rat
  | [] => 0
  | (c, e) :: t => c * |e| + absSum t

/-- all signed sums, in the order of `itertools.product([True, False], repeat=n)` -/
def combos : List (Rat × Rat) → List Rat
  | [] => [0]
  | (c, e) :: t => (combos t).map (fun s => c * e + s) ++ (combos t).map (fun s => -(c * e) + s)

theorem abs_expand (ts : List (Rat × Rat)) (hpos : ∀ p ∈ ts, 0 < p.1) (l : Rat) :
    absSum ts + l ≤ 0 ↔ ∀ s ∈ combos ts, s + l ≤ 0 := by
  induction ts generalizing l with
  | nil => simp [absSum, combos]
  | cons p t ih =>
    obtain ⟨c, e⟩ := p
    have hc : 0 < c := hpos (c, e) (by simp)
    have ht : ∀ q ∈ t, 0 < q.1 := fun q hq => hpos q (by simp [hq])
    simp only [absSum, combos, List.mem_append, List.mem_map]
    have h1 := ih ht (c * e + l)
    have h2 := ih ht (-(c * e) + l)
    constructor
    · intro h s hs
      rcases hs with ⟨s', hs', rfl⟩ | ⟨s', hs', rfl⟩
      · have : absSum t + (c * e + l) ≤ 0 := by
          have := le_abs_self e
          nlinarith [mul_le_mul_of_nonneg_left this (le_of_lt hc)]
        have := h1.mp this s' hs'; linarith
      · have : absSum t + (-(c * e) + l) ≤ 0 := by
          have := neg_abs_le e
          nlinarith [mul_le_mul_of_nonneg_left (neg_le_abs e) (le_of_lt hc)]
        have := h2.mp this s' hs'; linarith
    · intro h
      have a1 : absSum t + (c * e + l) ≤ 0 := h1.mpr (fun s hs => by
        have := h (c * e + s) (Or.inl ⟨s, hs, rfl⟩); linarith)
      have a2 : absSum t + (-(c * e) + l) ≤ 0 := h2.mpr (fun s hs => by
        have := h (-(c * e) + s) (Or.inr ⟨s, hs, rfl⟩); linarith)
      rcases abs_cases e with ⟨he, _⟩ | ⟨he, _⟩
      · rw [he]; linarith
      · rw [he]; linarith

#print axioms abs_expand
