import warnings; warnings.filterwarnings("ignore")
from pacti.iocontract import IoContract, TermList, Term, Var
from pacti.utils.errors import IncompatibleArgsError
LOG=[]
class Atom(Term):
    def __init__(s,name,vs): s.name=name; s._vars=[Var(v) for v in vs]
    @property
    def vars(s): return list(s._vars)
    def contains_var(s,v): return v in s._vars
    def __eq__(s,o): return s.name==o.name
    def __str__(s): return s.name
    def __hash__(s): return hash(s.name)
    def __repr__(s): return s.name
    def copy(s): return Atom(s.name,[v.name for v in s._vars])
    def rename_variable(s,a,b): return Atom(s.name+f"[{a}>{b}]",[ (b.name if v==a else v.name) for v in s._vars])
class SymTL(TermList):
    script={}
    def __hash__(s): return hash(tuple(s.terms))
    def contains_behavior(s,b): raise NotImplementedError
    def is_empty(s): return False
    def _do(s,kind,ctx,vs,simplify):
        LOG.append((kind,[t.name for t in s.terms],[t.name for t in ctx.terms] if ctx is not None else None,[str(v) for v in vs] if vs is not None else None,simplify))
        k=len(LOG)
        act=SymTL.script.get(k,'id')
        if act=='err': raise ValueError("scripted")
        if act=='id': return SymTL([t.copy() for t in s.terms])
        if act=='fresh': return SymTL([Atom(f"R{k}",[])])
    def elim_vars_by_refining(s,context,vars_to_elim,simplify=True,tactics_order=None): return s._do('refine',context,vars_to_elim,simplify),[]
    def elim_vars_by_relaxing(s,context,vars_to_elim,simplify=True,tactics_order=None):
        r=s._do('relax',context,vars_to_elim,simplify); r.terms=[t for t in r.terms if not any(v in vars_to_elim for v in t.vars)]; return r,[]
    def simplify(s,context=None): return s._do('simplify',context,None,None)
    def refines(s,other): LOG.append(('refines',[t.name for t in s.terms],[t.name for t in other.terms])); return True
c1=IoContract(SymTL([Atom("a1",["i"])]),SymTL([Atom("g1",["i","x"])]),[Var("i")],[Var("x")])
c2=IoContract(SymTL([Atom("a2",["x"])]),SymTL([Atom("g2",["x","o"])]),[Var("x")],[Var("o")])
LOG.clear(); SymTL.script={1:'fresh'}
c=c1.compose(c2)
print(c); 
for l in LOG: print(l)
LOG.clear(); SymTL.script={}
q=c.quotient(c1); print(q)
for l in LOG: print(l)
