abbrev Var := String
abbrev Val := Var → Rat

inductive Err | incompat | valueError
deriving DecidableEq, Repr

section
variable {T : Type} [DecidableEq T]

def lUnion {α} [DecidableEq α] (a b : List α) : List α := a ++ b.filter (fun e => !(a.contains e))
def lInter {α} [DecidableEq α] (a b : List α) : List α := a.filter (fun e => b.contains e)
def lDiff  {α} [DecidableEq α] (a b : List α) : List α := a.filter (fun e => !(b.contains e))

structure Dom (T : Type) where
  vars  : T → List Var
  holds : T → Val → Prop

def H (D : Dom T) (l : List T) (v : Val) : Prop := ∀ t ∈ l, D.holds t v
def varsL (D : Dom T) (l : List T) : List Var := l.foldl (fun acc t => lUnion acc (D.vars t)) []
def withVars (D : Dom T) (l : List T) (xs : List Var) : List T := l.filter (fun t => (lInter (D.vars t) xs) ≠ [])

structure Contract (T : Type) where
  a : List T
  g : List T
  ins : List Var
  outs : List Var

inductive Site | refA | simpA | relG1 | relG2 | relAll | ctor | qRef | qRelA | qRefG1 | qRefG2
deriving DecidableEq

structure Prims (T : Type) where
  elimRefine : Site → List T → List T → List Var → Bool → List Nat → Except Err (List T)
  elimRelax  : Site → List T → List T → List Var → Bool → List Nat → Except Err (List T)
  simplify   : Site → List T → Option (List T) → Except Err (List T)
  refines    : Site → List T → List T → Except Err Bool

structure Spec (D : Dom T) (P : Prims T) : Prop where
  refine_ok : ∀ s l Γ xs b o r, P.elimRefine s l Γ xs b o = .ok r → ∀ v, H D Γ v → H D r v → H D l v
  relax_ok  : ∀ s l Γ xs b o r, P.elimRelax s l Γ xs b o = .ok r → ∀ v, H D Γ v → H D l v → H D r v
  simp_ok   : ∀ s l Γ r, P.simplify s l Γ = .ok r → ∀ v, (∀ g, Γ = some g → H D g v) → (H D r v ↔ H D l v)
  refines_ok : ∀ s l r, P.refines s l r = .ok true → ∀ v, H D l v → H D r v

theorem H_union (D : Dom T) (a b : List T) (v : Val) : H D (lUnion a b) v ↔ H D a v ∧ H D b v := by
  unfold H lUnion
  constructor
  · intro h
    refine ⟨fun t ht => h t (by simp [ht]), fun t ht => ?_⟩
    by_cases hc : t ∈ a
    · exact h t (by simp [hc])
    · exact h t (by simp [ht, hc])
  · rintro ⟨ha, hb⟩ t ht
    simp at ht
    rcases ht with ht | ⟨ht, _⟩
    · exact ha t ht
    · exact hb t ht

theorem H_diff (D : Dom T) (a b : List T) (v : Val) (h : H D a v) : H D (lDiff a b) v := by
  intro t ht; exact h t (List.mem_filter.mp ht).1

def mkContract (D : Dom T) (P : Prims T) (a g : List T) (ins outs : List Var) : Except Err (Contract T) :=
  if ¬ ins.Nodup then .error .incompat
  else if ¬ outs.Nodup then .error .incompat
  else if lInter ins outs ≠ [] then .error .incompat
  else if lDiff (varsL D a) ins ≠ [] then .error .incompat
  else if lDiff (varsL D g) (lUnion ins outs) ≠ [] then .error .incompat
  else match P.simplify .ctor g (some a) with
    | .ok g' => .ok ⟨a, g', ins, outs⟩
    | .error e => .error e

def compose (D : Dom T) (P : Prims T) (c1 c2 : Contract T) (keep : List Var) (simp : Bool) (ord : List Nat) :
    Except Err (Contract T) :=
  if lDiff keep (lUnion c1.outs c2.outs) ≠ [] then .error .incompat else
  let intvars0 := lUnion (lInter c1.outs c2.ins) (lInter c1.ins c2.outs)
  let ins := lDiff (lUnion c1.ins c2.ins) intvars0
  let outs0 := lDiff (lUnion c1.outs c2.outs) intvars0
  let intvars := lDiff intvars0 keep
  let outs := lUnion outs0 keep
  let cycle := (lInter c1.ins c2.outs ≠ []) && (lInter c2.ins c1.outs ≠ [])
  let forb := lUnion intvars outs
  if lInter c1.outs c2.outs ≠ [] then .error .incompat else
  let ohs := lInter c2.outs c1.ins ≠ []
  let sho := lInter c2.ins c1.outs ≠ []
  let odc := lInter c2.outs (varsL D c1.a) ≠ []
  let sdc := lInter c1.outs (varsL D c2.a) ≠ []
  let asm : Except Err (List T) :=
    if cycle && (odc || sdc) then .error .incompat
    else if sho && !ohs then
      match P.elimRefine .refA c2.a (lUnion c1.a c1.g) forb true ord with
      | .error e => .error e
      | .ok na => if lInter (varsL D na) forb ≠ [] then .error .incompat else .ok (lUnion na c1.a)
    else if ohs && !sho then
      match P.elimRefine .refA c1.a (lUnion c2.a c2.g) forb true ord with
      | .error e => .error e
      | .ok na => if lInter (varsL D na) forb ≠ [] then .error .incompat else .ok (lUnion na c2.a)
    else .ok (lUnion c1.a c2.a)
  match asm with
  | .error e => .error e
  | .ok asm0 =>
  match (if simp then P.simplify .simpA asm0 none else .ok asm0) with
  | .error e => .error e
  | .ok asm1 =>
  match P.elimRelax .relG1 c1.g c2.g intvars simp ord with
  | .error e => .error e
  | .ok g1 =>
  match P.elimRelax .relG2 c2.g c1.g intvars simp ord with
  | .error e => .error e
  | .ok g2 =>
  match P.elimRelax .relAll (lUnion g1 g2) asm1 intvars simp ord with
  | .error e => .error e
  | .ok all =>
    mkContract D P asm1 (lDiff all (withVars D all intvars)) ins outs

theorem mk_sem (D : Dom T) (P : Prims T) (hP : Spec D P) {a g ins outs c}
    (h : mkContract D P a g ins outs = .ok c) : c.a = a ∧ ∀ v, H D a v → (H D c.g v ↔ H D g v) := by
  unfold mkContract at h
  split at h <;> try contradiction
  split at h <;> try contradiction
  split at h <;> try contradiction
  split at h <;> try contradiction
  split at h <;> try contradiction
  split at h
  · rename_i g' hs
    injection h with h; subst h
    refine ⟨rfl, fun v hv => hP.simp_ok _ _ _ _ hs v (fun g0 hg0 => by injection hg0 with e; subst e; exact hv)⟩
  · contradiction

theorem compose_sound (D : Dom T) (P : Prims T) (hP : Spec D P) (c1 c2 c : Contract T) keep simp ord
    (h : compose D P c1 c2 keep simp ord = .ok c) :
    ∀ v, H D c.a v → (H D c1.a v → H D c1.g v) → (H D c2.a v → H D c2.g v) →
      H D c1.a v ∧ H D c2.a v ∧ H D c.g v := by
  intro v hca h1 h2
  unfold compose at h
  split at h; · contradiction
  simp only at h
  split at h; · contradiction
  split at h; · contradiction
  rename_i asm0 hasm
  split at h; · contradiction
  rename_i asm1 hsimp
  split at h; · contradiction
  rename_i g1 hg1
  split at h; · contradiction
  rename_i g2 hg2
  split at h; · contradiction
  rename_i all hall
  obtain ⟨hca_eq, hcg⟩ := mk_sem D P hP h
  rw [hca_eq] at hca
  -- asm1 ↔ asm0
  have hasm0 : H D asm0 v := by
    by_cases hs : simp = true
    · rw [if_pos hs] at hsimp
      exact (hP.simp_ok _ _ _ _ hsimp v (fun g hg => by cases hg)).mp hca
    · rw [if_neg hs] at hsimp; injection hsimp with e; subst e; exact hca
  -- both assumptions hold
  have hboth : H D c1.a v ∧ H D c2.a v := by
    split at hasm
    · contradiction
    split at hasm
    · split at hasm
      · contradiction
      rename_i na hna
      split at hasm; · contradiction
      injection hasm with e; subst e
      have ⟨hna', ha1⟩ := (H_union D _ _ v).mp hasm0
      have hg1' := h1 ha1
      exact ⟨ha1, hP.refine_ok _ _ _ _ _ _ _ hna v ((H_union D _ _ v).mpr ⟨ha1, hg1'⟩) hna'⟩
    split at hasm
    · split at hasm
      · contradiction
      rename_i na hna
      split at hasm; · contradiction
      injection hasm with e; subst e
      have ⟨hna', ha2⟩ := (H_union D _ _ v).mp hasm0
      have hg2' := h2 ha2
      exact ⟨hP.refine_ok _ _ _ _ _ _ _ hna v ((H_union D _ _ v).mpr ⟨ha2, hg2'⟩) hna', ha2⟩
    · injection hasm with e; subst e
      exact (H_union D _ _ v).mp hasm0
  refine ⟨hboth.1, hboth.2, ?_⟩
  have G1 := h1 hboth.1
  have G2 := h2 hboth.2
  have hg1v := hP.relax_ok _ _ _ _ _ _ _ hg1 v G2 G1
  have hg2v := hP.relax_ok _ _ _ _ _ _ _ hg2 v G1 G2
  have hallv := hP.relax_ok _ _ _ _ _ _ _ hall v hca ((H_union D _ _ v).mpr ⟨hg1v, hg2v⟩)
  exact (hcg v hca).mpr (H_diff D _ _ v hallv)

#print axioms compose_sound

def orElse (r : Except Err (List T)) (d : List T) : List T := match r with | .ok x => x | .error _ => d

theorem orElse_refine (D : Dom T) (P : Prims T) (hP : Spec D P) (s : Site) (l Γ : List T) xs b o (v : Val)
    (hΓ : H D Γ v) (h : H D (orElse (P.elimRefine s l Γ xs b o) l) v) : H D l v := by
  unfold orElse at h
  split at h
  · rename_i r hr; exact hP.refine_ok _ _ _ _ _ _ _ hr v hΓ h
  · exact h

def quotient (D : Dom T) (P : Prims T) (c c1 : Contract T) (addl : List Var) (simp : Bool) (ord : List Nat) :
    Except Err (Contract T) :=
  if lInter (lDiff c.outs c1.outs) c1.ins ≠ [] then .error .incompat else
  if lDiff addl (lUnion c1.outs c.ins) ≠ [] then .error .incompat else
  let outs := lUnion (lDiff c.outs c1.outs) (lDiff c1.ins c.ins)
  let ins := lUnion (lUnion (lDiff c.ins c1.ins) (lDiff c1.outs c.outs)) addl
  let intvars := lDiff (lUnion (lInter c.outs c1.outs) (lInter c.ins c1.ins)) addl
  match P.refines .qRef c.a c1.a with
  | .error e => .error e
  | .ok rf =>
  let a0 := if rf then lUnion c.a c1.g else c.a
  match P.elimRelax .qRelA a0 [] (lUnion intvars outs) simp ord with
  | .error e => .error e
  | .ok asm =>
  let g0 := orElse (P.elimRefine .qRefG1 c.g (lUnion c1.g c1.a) intvars simp ord) c.g
  let g1 := lUnion g0 c1.a
  let g2 := orElse (P.elimRefine .qRefG2 g1 c.a intvars simp ord) g1
  if lInter (varsL D g2) intvars ≠ [] then .error .incompat else
  mkContract D P asm g2 ins outs

theorem quotient_sound (D : Dom T) (P : Prims T) (hP : Spec D P) (c c1 q : Contract T) addl simp ord
    (h : quotient D P c c1 addl simp ord = .ok q) :
    ∀ v, H D c.a v → (H D c1.a v → H D c1.g v) → (H D q.a v → H D q.g v) →
      H D c1.a v ∧ H D q.a v ∧ H D c.g v := by
  intro v hca h1 hq
  unfold quotient at h
  split at h; · contradiction
  split at h; · contradiction
  simp only at h
  split at h; · contradiction
  rename_i rf hrf
  split at h; · contradiction
  rename_i asm hasm
  split at h; · contradiction
  obtain ⟨hqa, hqg⟩ := mk_sem D P hP h
  have hnil : H D ([] : List T) v := fun t ht => by cases ht
  have hqav : H D q.a v := by
    rw [hqa]
    apply hP.relax_ok _ _ _ _ _ _ _ hasm v hnil
    by_cases hr : rf = true
    · subst hr
      have ha1 := hP.refines_ok _ _ _ hrf v hca
      simp only [if_true]
      exact (H_union D _ _ v).mpr ⟨hca, h1 ha1⟩
    · simp only [hr]; exact hca
  have hqgv := hq hqav
  have hqav' := hqav
  rw [hqa] at hqav'
  have hg2 := (hqg v hqav').mp hqgv
  have hg1 := orElse_refine D P hP _ _ _ _ _ _ v hca hg2
  obtain ⟨hg0, ha1⟩ := (H_union D _ _ v).mp hg1
  have hG1 := h1 ha1
  exact ⟨ha1, hqav, orElse_refine D P hP _ _ _ _ _ _ v ((H_union D _ _ v).mpr ⟨hG1, ha1⟩) hg0⟩

#print axioms quotient_sound
end
