import Mathlib.Tactic.Linarith
import Mathlib.Tactic.Ring
import Mathlib.Tactic.FieldSimp

abbrev Var := String
abbrev Val := Var → Rat
def evalL (l : List (Var × Rat)) (v : Val) : Rat := (l.map fun p => p.2 * v p.1).sum
def mix (t : Rat) (u w : Val) : Val := fun x => t * u x + (1 - t) * w x

theorem evalL_mix (l : List (Var × Rat)) (t : Rat) (u w : Val) :
    evalL l (mix t u w) = t * evalL l u + (1 - t) * evalL l w := by
  induction l with
  | nil => simp [evalL]
  | cons p l ih =>
    simp only [evalL, List.map_cons, List.sum_cons] at ih ⊢
    rw [ih]; simp only [mix]; ring

structure Row where
  c : List (Var × Rat)
  b : Rat
def Row.holds (r : Row) (v : Val) : Prop := evalL r.c v ≤ r.b
def Hs (rs : List Row) (v : Val) : Prop := ∀ r ∈ rs, r.holds v

theorem Hs_mix (rs : List Row) (t : Rat) (h0 : 0 ≤ t) (h1 : t ≤ 1) (u w : Val) (hu : Hs rs u) (hw : Hs rs w) :
    Hs rs (mix t u w) := by
  intro r hr
  have a := hu r hr; have b := hw r hr
  unfold Row.holds at *
  rw [evalL_mix]
  nlinarith [mul_le_mul_of_nonneg_left a h0, mul_le_mul_of_nonneg_left b (by linarith : (0:Rat) ≤ 1 - t)]

/-- the `b+1` trick: x* maximises a over rs ∩ {a ≤ β+1}. -/
theorem relax_by_one (rs : List Row) (a : List (Var × Rat)) (β : Rat) (xs : Val)
    (hfeas : Hs rs xs) (hle : evalL a xs ≤ β + 1)
    (hmax : ∀ z, Hs rs z → evalL a z ≤ β + 1 → evalL a z ≤ evalL a xs) :
    (∀ z, Hs rs z → evalL a z ≤ β) ↔ evalL a xs ≤ β := by
  constructor
  · intro h; exact h xs hfeas
  · intro hm z hz
    by_contra hcon
    have hgt : β < evalL a z := lt_of_not_ge hcon
    by_cases hz1 : evalL a z ≤ β + 1
    · have := hmax z hz hz1; linarith
    · have hz1' : β + 1 < evalL a z := lt_of_not_ge hz1
      have hd : 0 < evalL a z - evalL a xs := by linarith
      let t : Rat := (β + 1 - evalL a xs) / (evalL a z - evalL a xs)
      have ht0 : 0 ≤ t := div_nonneg (by linarith) (le_of_lt hd)
      have ht1 : t ≤ 1 := by
        have : t * (evalL a z - evalL a xs) = β + 1 - evalL a xs := by
          simp only [t]; field_simp
        nlinarith [this, hd]
      have hw := Hs_mix rs t ht0 ht1 z xs hz hfeas
      have hval : evalL a (mix t z xs) = β + 1 := by
        rw [evalL_mix]
        have : t * (evalL a z - evalL a xs) = β + 1 - evalL a xs := by
          simp only [t]; field_simp
        linarith [this]
      have := hmax (mix t z xs) hw (by rw [hval])
      rw [hval] at this; linarith

#print axioms relax_by_one
