import Mathlib.Tactic.Linarith
import Mathlib.Tactic.Ring
import Mathlib.Tactic.FieldSimp

/-! Spike: the `reduce_polytope` loop with an LP oracle and a tie function; equivalence theorem. -/

abbrev Var := String
abbrev Val := Var → Rat
def evalL (l : List (Var × Rat)) (v : Val) : Rat := (l.map fun p => p.2 * v p.1).sum
def mix (t : Rat) (u w : Val) : Val := fun x => t * u x + (1 - t) * w x

theorem evalL_mix (l : List (Var × Rat)) (t : Rat) (u w : Val) :
    evalL l (mix t u w) = t * evalL l u + (1 - t) * evalL l w := by
  induction l with
  | nil => simp [evalL]
  | cons p l ih =>
    simp only [evalL, List.map_cons, List.sum_cons] at ih ⊢
    rw [ih]; simp only [mix]; ring

structure Row where
  c : List (Var × Rat)
  b : Rat
def Row.holds (r : Row) (v : Val) : Prop := evalL r.c v ≤ r.b
def Hs (rs : List Row) (v : Val) : Prop := ∀ r ∈ rs, r.holds v

theorem Hs_append (a b : List Row) (v : Val) : Hs (a ++ b) v ↔ Hs a v ∧ Hs b v := by
  unfold Hs; constructor
  · intro h; exact ⟨fun r hr => h r (by simp [hr]), fun r hr => h r (by simp [hr])⟩
  · rintro ⟨h1, h2⟩ r hr; rcases List.mem_append.mp hr with h | h
    · exact h1 r h
    · exact h2 r h

theorem Hs_mix (rs : List Row) (t : Rat) (h0 : 0 ≤ t) (h1 : t ≤ 1) (u w : Val) (hu : Hs rs u) (hw : Hs rs w) :
    Hs rs (mix t u w) := by
  intro r hr
  have a := hu r hr; have b := hw r hr
  unfold Row.holds at *
  rw [evalL_mix]
  nlinarith [mul_le_mul_of_nonneg_left a h0, mul_le_mul_of_nonneg_left b (by linarith : (0:Rat) ≤ 1 - t)]

theorem relax_by_one (rs : List Row) (a : List (Var × Rat)) (β : Rat) (xs : Val)
    (hfeas : Hs rs xs)
    (hmax : ∀ z, Hs rs z → evalL a z ≤ β + 1 → evalL a z ≤ evalL a xs)
    (hm : evalL a xs ≤ β) : ∀ z, Hs rs z → evalL a z ≤ β := by
  intro z hz
  by_contra hcon
  have hgt : β < evalL a z := lt_of_not_ge hcon
  by_cases hz1 : evalL a z ≤ β + 1
  · have := hmax z hz hz1; linarith
  · have hz1' : β + 1 < evalL a z := lt_of_not_ge hz1
    have hd : 0 < evalL a z - evalL a xs := by linarith
    let t : Rat := (β + 1 - evalL a xs) / (evalL a z - evalL a xs)
    have htm : t * (evalL a z - evalL a xs) = β + 1 - evalL a xs := by
      simp only [t]; field_simp
    have ht0 : 0 ≤ t := div_nonneg (by linarith) (le_of_lt hd)
    have ht1 : t ≤ 1 := by nlinarith [htm, hd]
    have hw := Hs_mix rs t ht0 ht1 z xs hz hfeas
    have hval : evalL a (mix t z xs) = β + 1 := by rw [evalL_mix]; linarith [htm]
    have := hmax (mix t z xs) hw (by rw [hval])
    rw [hval] at this; linarith

inductive LPRes | optimal (m : Rat) (x : Val) | infeasible | unbounded
inductive Err | valueError

/-- oracle: maximise `obj` subject to `cs` -/
structure Oracle where
  lp : List (Var × Rat) → List Row → LPRes
/-- what the verified certificate checker guarantees about every answer it lets through -/
structure Oracle.Certified (O : Oracle) : Prop where
  opt : ∀ obj cs m x, O.lp obj cs = .optimal m x → Hs cs x ∧ evalL obj x = m ∧ ∀ z, Hs cs z → evalL obj z ≤ m
  inf : ∀ obj cs, O.lp obj cs = .infeasible → ¬ ∃ z, Hs cs z
  unb : ∀ obj cs, O.lp obj cs = .unbounded → ∀ M, ∃ z, Hs cs z ∧ M < evalL obj z

def bump (r : Row) : Row := ⟨r.c, r.b + 1⟩

/-- `reduce_polytope`: `kept` = rows already decided to stay, `rest` = rows still to visit. -/
def reduce (O : Oracle) (tie : Nat → Bool) (ctx : List Row) : List Row → List Row → Except Err (List Row)
  | kept, [] => .ok kept
  | kept, r :: rest =>
    match O.lp r.c (bump r :: (kept ++ rest ++ ctx)) with
    | .optimal m _ =>
      if m < r.b ∨ (m = r.b ∧ tie rest.length) then reduce O tie ctx kept rest
      else reduce O tie ctx (kept ++ [r]) rest
    | .unbounded => reduce O tie ctx kept rest      -- dead with a certified oracle; kept as in the code
    | .infeasible => .error .valueError

theorem reduce_equiv (O : Oracle) (hO : O.Certified) (tie : Nat → Bool) (ctx : List Row) :
    ∀ (rest kept out : List Row), reduce O tie ctx kept rest = .ok out →
      ∀ v, Hs ctx v → (Hs out v ↔ Hs (kept ++ rest) v) := by
  intro rest
  induction rest with
  | nil => intro kept out h v _; simp only [reduce] at h; injection h with h; subst h; simp
  | cons r rest ih =>
    intro kept out h v hctx
    simp only [reduce] at h
    split at h
    · rename_i m x hlp
      obtain ⟨hx, hxm, hmax⟩ := hO.opt _ _ _ _ hlp
      split at h
      · -- dropped: r is implied by kept ++ rest ++ ctx
        rename_i hdrop
        have hmle : m ≤ r.b := by rcases hdrop with h1 | ⟨h1, _⟩ <;> linarith
        have key : ∀ z, Hs (kept ++ rest ++ ctx) z → evalL r.c z ≤ r.b := by
          apply relax_by_one (kept ++ rest ++ ctx) r.c r.b x
          · intro q hq; exact hx q (List.mem_cons_of_mem _ hq)
          · intro z hz hz1
            rw [hxm]; apply hmax z
            intro q hq
            rcases List.mem_cons.mp hq with e | e
            · subst e; exact hz1
            · exact hz q e
          · rw [hxm]; exact hmle
        rw [ih kept out h v hctx]
        constructor
        · intro hkr
          rw [Hs_append] at hkr ⊢
          refine ⟨hkr.1, ?_⟩
          intro q hq
          rcases List.mem_cons.mp hq with e | e
          · subst e
            exact key v (by rw [Hs_append, Hs_append]; exact ⟨⟨hkr.1, hkr.2⟩, hctx⟩)
          · exact hkr.2 q e
        · intro hkr
          rw [Hs_append] at hkr ⊢
          exact ⟨hkr.1, fun q hq => hkr.2 q (List.mem_cons_of_mem _ hq)⟩
      · -- kept
        rw [ih (kept ++ [r]) out h v hctx]
        simp only [Hs_append]
        constructor
        · rintro ⟨⟨a, b⟩, c⟩
          exact ⟨a, fun q hq => by
            rcases List.mem_cons.mp hq with e | e
            · subst e; exact b q (by simp)
            · exact c q e⟩
        · rintro ⟨a, b⟩
          exact ⟨⟨a, fun q hq => by simp at hq; subst hq; exact b q (by simp)⟩,
                 fun q hq => b q (List.mem_cons_of_mem _ hq)⟩
    · -- `status == 3`: dead branch – the bumped row bounds the objective
      rename_i hlp
      obtain ⟨z, hz, hM⟩ := hO.unb _ _ hlp (r.b + 1)
      have := hz (bump r) (by simp)
      unfold Row.holds bump at this; simp only at this
      linarith
    · contradiction

#print axioms reduce_equiv
