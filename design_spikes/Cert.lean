import Mathlib.Tactic.Linarith
import Mathlib.Tactic.Ring

abbrev Var := String
abbrev Val := Var → Rat

def evalL (l : List (Var × Rat)) (v : Val) : Rat := (l.map fun p => p.2 * v p.1).sum
def coeffL (l : List (Var × Rat)) (x : Var) : Rat := (l.map fun p => if p.1 = x then p.2 else 0).sum

theorem sum_map_add {α} (l : List α) (f g : α → Rat) :
    (l.map fun a => f a + g a).sum = (l.map f).sum + (l.map g).sum := by
  induction l with
  | nil => simp
  | cons a l ih => simp only [List.map_cons, List.sum_cons, ih]; ring

theorem sum_map_zero {α} (l : List α) (f : α → Rat) (h : ∀ a ∈ l, f a = 0) : (l.map f).sum = 0 := by
  induction l with
  | nil => rfl
  | cons a l ih =>
    simp only [List.map_cons, List.sum_cons]
    rw [h a (by simp), ih (fun b hb => h b (by simp [hb]))]; ring

theorem sum_ite_single (xs : List Var) (hn : xs.Nodup) (y : Var) (hy : y ∈ xs) (c : Rat) (v : Val) :
    (xs.map fun x => (if y = x then c else 0) * v x).sum = c * v y := by
  induction xs with
  | nil => simp at hy
  | cons x xs ih =>
    have hnd := List.nodup_cons.mp hn
    simp only [List.map_cons, List.sum_cons]
    by_cases h : y = x
    · subst h
      have h0 : (xs.map fun x => (if y = x then c else 0) * v x).sum = 0 := by
        apply sum_map_zero
        intro x hx
        have : y ≠ x := fun e => hnd.1 (e ▸ hx)
        rw [if_neg this]; ring
      rw [h0, if_pos rfl]; ring
    · have hy' : y ∈ xs := by
        rcases List.mem_cons.mp hy with h' | h'
        · exact absurd h' h
        · exact h'
      rw [if_neg h, ih hnd.2 hy']; ring

theorem evalL_eq_sum (l : List (Var × Rat)) (xs : List Var) (hn : xs.Nodup)
    (hsub : ∀ p ∈ l, p.1 ∈ xs) (v : Val) :
    evalL l v = (xs.map fun x => coeffL l x * v x).sum := by
  induction l with
  | nil =>
    have : (xs.map fun x => coeffL [] x * v x).sum = 0 := by
      apply sum_map_zero; intro x _; simp [coeffL]
    rw [this]; rfl
  | cons p l ih =>
    have h1 : p.1 ∈ xs := hsub p (by simp)
    have h2 : ∀ q ∈ l, q.1 ∈ xs := fun q hq => hsub q (by simp [hq])
    have e : (fun x => coeffL (p :: l) x * v x)
           = (fun x => (if p.1 = x then p.2 else 0) * v x + coeffL l x * v x) := by
      funext x; simp only [coeffL, List.map_cons, List.sum_cons]; ring
    rw [e, sum_map_add, sum_ite_single xs hn p.1 h1, ← ih h2]
    simp only [evalL, List.map_cons, List.sum_cons]

#print axioms evalL_eq_sum
