import Mathlib.Tactic.Linarith
import Mathlib.Tactic.Ring
import Mathlib.Tactic.FieldSimp
import Mathlib.Algebra.BigOperators.Fin
import Mathlib.Algebra.Order.BigOperators.Group.Finset
import Mathlib.Data.Finset.Max
import Mathlib.Data.Fintype.Basic
import Mathlib.Algebra.Order.Field.Rat

open Finset BigOperators

/-- normalised form: z j + Σ_{i≠j} α j i * z i = 1, α ≥ 0, row sums < 1  ⇒ z > 0 -/
theorem kay_core {n : ℕ} (α : Fin n → Fin n → ℚ) (z : Fin n → ℚ)
    (hα : ∀ j i, 0 ≤ α j i)
    (hrow : ∀ j, ∑ i ∈ univ.erase j, α j i < 1)
    (heq : ∀ j, z j + ∑ i ∈ univ.erase j, α j i * z i = 1) :
    ∀ j, 0 < z j := by
  intro j0
  have hne : (univ : Finset (Fin n)).Nonempty := ⟨j0, mem_univ _⟩
  obtain ⟨m, _, hm⟩ := exists_min_image univ z hne
  obtain ⟨M, _, hM⟩ := exists_max_image univ z hne
  -- bounds
  have hmaxle : z M ≤ 1 - (∑ i ∈ univ.erase M, α M i) * z m := by
    have : (∑ i ∈ univ.erase M, α M i) * z m ≤ ∑ i ∈ univ.erase M, α M i * z i := by
      rw [sum_mul]; apply sum_le_sum; intro i _
      exact mul_le_mul_of_nonneg_left (hm i (mem_univ _)) (hα M i)
    linarith [heq M]
  have hminge : 1 - (∑ i ∈ univ.erase m, α m i) * z M ≤ z m := by
    have : ∑ i ∈ univ.erase m, α m i * z i ≤ (∑ i ∈ univ.erase m, α m i) * z M := by
      rw [sum_mul]; apply sum_le_sum; intro i _
      exact mul_le_mul_of_nonneg_left (hM i (mem_univ _)) (hα m i)
    linarith [heq m]
  set aM := ∑ i ∈ univ.erase M, α M i with haM
  set am := ∑ i ∈ univ.erase m, α m i with ham
  have haM0 : 0 ≤ aM := sum_nonneg (fun i _ => hα M i)
  have ham0 : 0 ≤ am := sum_nonneg (fun i _ => hα m i)
  have haM1 : aM < 1 := hrow M
  have ham1 : am < 1 := hrow m
  have hzm : 0 < z m := by
    by_contra hcon
    have hle : z m ≤ 0 := le_of_not_gt hcon
    by_cases hMs : 0 ≤ z M
    · have h1 : am * z M ≤ am * (1 - aM * z m) := mul_le_mul_of_nonneg_left hmaxle ham0
      have h2 : am * aM < 1 := by nlinarith
      have h3 : z m * (1 - am * aM) ≤ 0 := mul_nonpos_of_nonpos_of_nonneg hle (by linarith)
      nlinarith
    · have : z M < 0 := lt_of_not_ge hMs
      nlinarith [mul_nonneg ham0 (le_of_lt (neg_pos.mpr this))]
  exact lt_of_lt_of_le hzm (hm j0 (mem_univ _))

#print axioms kay_core
